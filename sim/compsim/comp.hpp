// compsim: uniform interface over adapter compositions (all real library templates) on logging leaves.
#pragma once
#include "leaf.hpp"
#include "../kernel/plan.hpp"

#include <functional>
#include <map>
#include <memory>
#include <string>

#include <foonathan/memory/allocator_traits.hpp>

namespace cs
{
    namespace fm = foonathan::memory;

    enum Fam
    {
        TRAITS = 1,
        COMP   = 2
    };

    struct Req
    {
        int         fam;
        bool        array;
        std::size_t count, size, align;
    };

    struct Env
    {
        Log       log;
        LeafState leaf[4];
        TrackLog  track;
        // leaf objects (handles) that reference storages can point to
        LeafN  ln[4];
        LeafA  la[4];
        LeafC  lc[4];
        LeafAC lac[4];
        // knobs
        std::size_t th1 = 64, th2 = 512, min_align = 1;
        void        reset()
        {
            log = Log();
            for (int i = 0; i < 4; ++i)
            {
                leaf[i]       = LeafState();
                leaf[i].id    = i;
                leaf[i].owner = sim::OWNER_FIRST + i;
                leaf[i].log   = &log;
                ln[i]         = LeafN(&leaf[i]);
                la[i]         = LeafA(&leaf[i]);
                lc[i]         = LeafC(&leaf[i]);
                lac[i]        = LeafAC(&leaf[i]);
            }
            track = TrackLog();
        }
    };

    class Comp
    {
    public:
        virtual ~Comp() {}
        virtual void*       alloc(const Req&)          = 0; // throwing for TRAITS, null for COMP
        virtual bool        dealloc(const Req&, void*) = 0;
        virtual std::size_t max_node()                 = 0;
        virtual std::size_t max_array()                = 0;
        virtual std::size_t max_align()                = 0;
        bool                composable   = false;
        bool                has_tracker  = false;
        int                 tracked_leaf = -1;    // has_tracker: -1 = every request passes the tracker, else only
                                                  // requests served by this leaf do
        virtual bool        move_assign_from(Comp&)
        {
            return false;
        }
        bool                array_ok     = true;  // whether array requests make sense
        std::size_t         fixed_size   = 0;     // != 0: element type fixed by the composition (std_allocator)
        std::size_t         fixed_align  = 0;
        bool                bytes_only   = false; // pmr interface: only (bytes, alignment)
        std::size_t         align_cap    = 0;     // != 0: requests are kept at or below this alignment (standard-style
                                                  // Allocators as leaves promise no more)
        std::string         name;
    };

    // any RawAllocator type
    template <class A, bool Composable = fm::is_composable_allocator<
                           typename fm::allocator_traits<A>::allocator_type>::value>
    class RawComp : public Comp
    {
        using traits  = fm::allocator_traits<A>;
        using ctraits = fm::composable_allocator_traits<A>;
        using is_comp = std::integral_constant<bool, Composable>;

    public:
        template <class... Args>
        explicit RawComp(Args&&... args) : a_(std::forward<Args>(args)...)
        {
            composable = Composable;
        }
        void* alloc(const Req& r) override
        {
            if (r.fam == COMP)
                return try_alloc(r, is_comp{});
            return r.array ? traits::allocate_array(a_, r.count, r.size, r.align) :
                             traits::allocate_node(a_, r.size, r.align);
        }
        bool dealloc(const Req& r, void* p) override
        {
            if (r.fam == COMP)
                return try_dealloc(r, p, is_comp{});
            if (r.array)
                traits::deallocate_array(a_, p, r.count, r.size, r.align);
            else
                traits::deallocate_node(a_, p, r.size, r.align);
            return true;
        }
        std::size_t max_node() override
        {
            return traits::max_node_size(a_);
        }
        std::size_t max_array() override
        {
            return traits::max_array_size(a_);
        }
        std::size_t max_align() override
        {
            return traits::max_alignment(a_);
        }
        bool move_assign_from(Comp& other) override
        {
            return do_assign(other, std::is_move_assignable<A>{});
        }
        A a_;

    private:
        bool do_assign(Comp& other, std::true_type)
        {
            a_ = std::move(static_cast<RawComp&>(other).a_);
            return true;
        }
        bool do_assign(Comp&, std::false_type)
        {
            return false;
        }
        void* try_alloc(const Req& r, std::true_type)
        {
            return r.array ? ctraits::try_allocate_array(a_, r.count, r.size, r.align) :
                             ctraits::try_allocate_node(a_, r.size, r.align);
        }
        void* try_alloc(const Req&, std::false_type)
        {
            return nullptr;
        }
        bool try_dealloc(const Req& r, void* p, std::true_type)
        {
            return r.array ? ctraits::try_deallocate_array(a_, p, r.count, r.size, r.align) :
                             ctraits::try_deallocate_node(a_, p, r.size, r.align);
        }
        bool try_dealloc(const Req&, void*, std::false_type)
        {
            return false;
        }
    };

    using CompFactory = std::function<Comp*(Env&)>;
    std::map<std::string, CompFactory>& comp_registry();
    struct CompReg
    {
        CompReg(const std::string& n, CompFactory f)
        {
            comp_registry()[n] = f;
        }
    };
} // namespace cs
