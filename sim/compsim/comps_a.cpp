// compositions: storage classes, aligned, tracked, thread safe (depth 1..3)
#include "comp.hpp"

#include <mutex>

#include <foonathan/memory/aligned_allocator.hpp>
#include <foonathan/memory/allocator_storage.hpp>
#include <foonathan/memory/tracking.hpp>

namespace cs
{
    std::map<std::string, CompFactory>& comp_registry()
    {
        static std::map<std::string, CompFactory> r;
        return r;
    }

    template <class C>
    static Comp* named(C* c, const char* n)
    {
        c->name = n;
        return c;
    }

#define REG(NAME, TYPE, ...)                                                                       \
    static CompReg reg_##__LINE__##NAME(#NAME, [](Env& e) -> Comp* {                                \
        (void)e;                                                                                   \
        return named(new RawComp<TYPE>(__VA_ARGS__), #NAME);                                       \
    });

    using AdN  = fm::allocator_adapter<LeafN>;
    using AdA  = fm::allocator_adapter<LeafA>;
    using AdAC = fm::allocator_adapter<LeafAC>;
    REG(adapter_N, AdN, LeafN(&e.leaf[0]))
    REG(adapter_A, AdA, LeafA(&e.leaf[0]))
    REG(adapter_AC, AdAC, LeafAC(&e.leaf[0]))

    using RefN  = fm::allocator_reference<LeafN>;
    using RefA  = fm::allocator_reference<LeafA>;
    using RefAC = fm::allocator_reference<LeafAC>;
    REG(ref_N, RefN, e.ln[0])
    REG(ref_A, RefA, e.la[0])
    REG(ref_AC, RefAC, e.lac[0])

    using AnyRef = fm::any_allocator_reference;
    // (type-erased references are composable at compile time, whether the referenced allocator is, is a run-time
    //  property the caller has to ask for with is_composable(): not composable here)
    static CompReg r_anyn("any_N", [](Env& e) -> Comp* { return named(new RawComp<AnyRef, false>(e.ln[0]), "any_N"); });
    static CompReg r_anya("any_A", [](Env& e) -> Comp* { return named(new RawComp<AnyRef, false>(e.la[0]), "any_A"); });
    REG(any_AC, AnyRef, e.lac[0])

    using TsA  = fm::thread_safe_allocator<LeafA, std::mutex>;
    using TsAC = fm::thread_safe_allocator<LeafAC, std::mutex>;
    REG(ts_A, TsA, LeafA(&e.leaf[0]))
    REG(ts_AC, TsAC, LeafAC(&e.leaf[0]))

    using AlN  = fm::aligned_allocator<LeafN>;
    using AlA  = fm::aligned_allocator<LeafA>;
    using AlAC = fm::aligned_allocator<LeafAC>;
    REG(aligned_N, AlN, e.min_align, LeafN(&e.leaf[0]))
    REG(aligned_A, AlA, e.min_align, LeafA(&e.leaf[0]))
    REG(aligned_AC, AlAC, e.min_align, LeafAC(&e.leaf[0]))

    using TrN  = fm::tracked_allocator<Tracker, LeafN>;
    using TrA  = fm::tracked_allocator<Tracker, LeafA>;
    using TrAC = fm::tracked_allocator<Tracker, LeafAC>;
    static Comp* tracked(Comp* c)
    {
        c->has_tracker = true;
        return c;
    }
    static CompReg r_trn("tracked_N", [](Env& e) -> Comp* {
        return tracked(named(new RawComp<TrN, false>(Tracker{&e.track}, LeafN(&e.leaf[0])), "tracked_N"));
    });
    static CompReg r_tra("tracked_A", [](Env& e) -> Comp* {
        return tracked(named(new RawComp<TrA, false>(Tracker{&e.track}, LeafA(&e.leaf[0])), "tracked_A"));
    });
    static CompReg r_trac("tracked_AC", [](Env& e) -> Comp* {
        return tracked(named(new RawComp<TrAC>(Tracker{&e.track}, LeafAC(&e.leaf[0])), "tracked_AC"));
    });

    // depth 2 and 3
    using AlTrA = fm::aligned_allocator<TrA>;
    static CompReg r_altra("aligned_tracked_A", [](Env& e) -> Comp* {
        return tracked(named(new RawComp<AlTrA, false>(e.min_align, TrA(Tracker{&e.track}, LeafA(&e.leaf[0]))),
                             "aligned_tracked_A"));
    });
    using TrAlAC = fm::tracked_allocator<Tracker, AlAC>;
    static CompReg r_tralac("tracked_aligned_AC", [](Env& e) -> Comp* {
        return tracked(named(new RawComp<TrAlAC>(Tracker{&e.track}, AlAC(e.min_align, LeafAC(&e.leaf[0]))),
                             "tracked_aligned_AC"));
    });
    using TsTrA = fm::thread_safe_allocator<TrA, std::mutex>;
    static CompReg r_tstra("ts_tracked_A", [](Env& e) -> Comp* {
        return tracked(named(new RawComp<TsTrA, false>(TrA(Tracker{&e.track}, LeafA(&e.leaf[0]))), "ts_tracked_A"));
    });
    using AdAlTrAC = fm::allocator_adapter<fm::aligned_allocator<TrAC>>;
    static CompReg r_adaltrac("adapter_aligned_tracked_AC", [](Env& e) -> Comp* {
        return tracked(named(new RawComp<AdAlTrAC>(fm::aligned_allocator<TrAC>(
                                 e.min_align, TrAC(Tracker{&e.track}, LeafAC(&e.leaf[0])))),
                             "adapter_aligned_tracked_AC"));
    });
    // reference to an adapter object that lives in the composition
    template <class Inner>
    struct Held
    {
        Inner inner;
        template <class... A>
        explicit Held(A&&... a) : inner(std::forward<A>(a)...)
        {
        }
    };
    template <class Inner, class Outer, bool Composable = true>
    struct HeldComp : Held<Inner>, RawComp<Outer, Composable>
    {
        template <class... A>
        explicit HeldComp(A&&... a)
        : Held<Inner>(std::forward<A>(a)...), RawComp<Outer, Composable>(this->inner)
        {
        }
        bool move_assign_from(Comp&) override
        {
            return false; // the reference points at the object held next to it
        }
    };
    static CompReg r_refal("ref_aligned_A", [](Env& e) -> Comp* {
        return named(new HeldComp<AlA, fm::allocator_reference<AlA>, false>(e.min_align, LeafA(&e.leaf[0])),
                     "ref_aligned_A");
    });
    static CompReg r_anytr("any_tracked_AC", [](Env& e) -> Comp* {
        return tracked(named(new HeldComp<TrAC, AnyRef>(Tracker{&e.track}, LeafAC(&e.leaf[0])),
                             "any_tracked_AC"));
    });
    static CompReg r_anyal("any_aligned_N", [](Env& e) -> Comp* {
        return named(new HeldComp<AlN, AnyRef, false>(e.min_align, LeafN(&e.leaf[0])), "any_aligned_N");
    });

    // stateless leaf: reference storage keeps nothing, thread_safe_allocator takes no mutex
    using SL = StatelessLeaf<0>;
    static CompReg r_sl1("adapter_stateless", [](Env& e) -> Comp* {
        SL::state() = &e.leaf[0];
        return named(new RawComp<fm::allocator_adapter<SL>>(SL{}), "adapter_stateless");
    });
    static CompReg r_sl2("ref_stateless", [](Env& e) -> Comp* {
        SL::state() = &e.leaf[0];
        return named(new RawComp<fm::allocator_reference<SL>>(SL{}), "ref_stateless");
    });
    static CompReg r_sl3("ts_stateless", [](Env& e) -> Comp* {
        SL::state() = &e.leaf[0];
        return named(new RawComp<fm::thread_safe_allocator<SL, std::mutex>>(SL{}), "ts_stateless");
    });
    static CompReg r_sl4("any_stateless", [](Env& e) -> Comp* {
        SL::state() = &e.leaf[0];
        return named(new RawComp<AnyRef, false>(SL{}), "any_stateless");
    });
    // a tracker with state around a stateless allocator is stateful: references must reach the user's object
    using TrSL = fm::tracked_allocator<Tracker, SL>;
    static CompReg r_sl5("ref_tracked_stateless", [](Env& e) -> Comp* {
        SL::state() = &e.leaf[0];
        return tracked(named(new HeldComp<TrSL, fm::allocator_reference<TrSL>, false>(Tracker{&e.track}, SL{}),
                             "ref_tracked_stateless"));
    });
    static CompReg r_sl6("any_tracked_stateless", [](Env& e) -> Comp* {
        SL::state() = &e.leaf[0];
        return tracked(named(new HeldComp<TrSL, AnyRef, false>(Tracker{&e.track}, SL{}), "any_tracked_stateless"));
    });
    static CompReg r_sl7("ts_tracked_stateless", [](Env& e) -> Comp* {
        SL::state() = &e.leaf[0];
        return tracked(named(new RawComp<fm::thread_safe_allocator<TrSL, std::mutex>, false>(TrSL(Tracker{&e.track}, SL{})),
                             "ts_tracked_stateless"));
    });
} // namespace cs
