// compositions: segregators, fallback allocators (C08 routing), memory resources, std_allocator
#include "comp.hpp"

#include <foonathan/memory/aligned_allocator.hpp>
#include <foonathan/memory/allocator_storage.hpp>
#include <foonathan/memory/fallback_allocator.hpp>
#include <foonathan/memory/memory_resource_adapter.hpp>
#include <foonathan/memory/segregator.hpp>
#include <foonathan/memory/std_allocator.hpp>
#include <foonathan/memory/tracking.hpp>

namespace cs
{
    template <class C>
    static Comp* named(C* c, const char* n)
    {
        c->name = n;
        return c;
    }

    //=== segregators ===//
    using Seg2 = fm::binary_segregator<fm::threshold_segregatable<LeafA>, LeafA>;
    static CompReg r_seg2("seg2_A_A", [](Env& e) -> Comp* {
        return named(new RawComp<Seg2>(fm::threshold(e.th1, LeafA(&e.leaf[0])), LeafA(&e.leaf[1])), "seg2_A_A");
    });
    using Seg2N = fm::binary_segregator<fm::threshold_segregatable<LeafN>, LeafA>;
    static CompReg r_seg2n("seg2_N_A", [](Env& e) -> Comp* {
        return named(new RawComp<Seg2N>(fm::threshold(e.th1, LeafN(&e.leaf[0])), LeafA(&e.leaf[1])), "seg2_N_A");
    });
    using Seg3 = fm::segregator<fm::threshold_segregatable<LeafA>, fm::threshold_segregatable<LeafN>, LeafA>;
    static CompReg r_seg3("seg3_A_N_A", [](Env& e) -> Comp* {
        return named(new RawComp<Seg3>(fm::make_segregator(fm::threshold(e.th1, LeafA(&e.leaf[0])),
                                                           fm::threshold(e.th2, LeafN(&e.leaf[1])),
                                                           LeafA(&e.leaf[2]))),
                     "seg3_A_N_A");
    });
    using SegAl = fm::binary_segregator<fm::threshold_segregatable<fm::aligned_allocator<LeafA>>,
                                        fm::tracked_allocator<Tracker, LeafA>>;
    static CompReg r_segal("seg2_alignedA_trackedA", [](Env& e) -> Comp* {
        auto c = named(new RawComp<SegAl, false>(fm::threshold(e.th1, fm::aligned_allocator<LeafA>(
                                                                          e.min_align, LeafA(&e.leaf[0]))),
                                                 fm::tracked_allocator<Tracker, LeafA>(Tracker{&e.track},
                                                                                       LeafA(&e.leaf[1]))),
                       "seg2_alignedA_trackedA");
        c->has_tracker  = true; // only the fallback side (leaf 1) is tracked
        c->tracked_leaf = 1;
        return c;
    });

    // a Segregatable whose array decision differs from its node decision: takes nodes up to a size, never arrays
    template <class L>
    struct NodeOnlySegregatable
    {
        using allocator_type = L;
        NodeOnlySegregatable(std::size_t max, L l) : alloc(std::move(l)), max_size(max) {}
        bool use_allocate_node(std::size_t size, std::size_t) noexcept
        {
            return size <= max_size;
        }
        bool use_allocate_array(std::size_t, std::size_t, std::size_t) noexcept
        {
            return false;
        }
        L& get_allocator() noexcept
        {
            return alloc;
        }
        const L& get_allocator() const noexcept
        {
            return alloc;
        }
        L           alloc;
        std::size_t max_size;
    };
    using SegNO = fm::binary_segregator<NodeOnlySegregatable<LeafA>, LeafA>;
    static CompReg r_segno("seg2_nodeonlyA_A", [](Env& e) -> Comp* {
        return named(new RawComp<SegNO>(NodeOnlySegregatable<LeafA>(e.th1, LeafA(&e.leaf[0])), LeafA(&e.leaf[1])),
                     "seg2_nodeonlyA_A");
    });

    //=== fallback allocators ===//
    using Fb1 = fm::fallback_allocator<LeafAC, LeafA>;
    static CompReg r_fb1("fallback_AC_A", [](Env& e) -> Comp* {
        return named(new RawComp<Fb1>(LeafAC(&e.leaf[0]), LeafA(&e.leaf[1])), "fallback_AC_A");
    });
    using Fb1c = fm::fallback_allocator<LeafAC, LeafAC>;
    static CompReg r_fb1c("fallback_AC_AC", [](Env& e) -> Comp* {
        return named(new RawComp<Fb1c>(LeafAC(&e.leaf[0]), LeafAC(&e.leaf[1])), "fallback_AC_AC");
    });
    using Fb1n = fm::fallback_allocator<LeafC, LeafN>;
    static CompReg r_fb1n("fallback_C_N", [](Env& e) -> Comp* {
        return named(new RawComp<Fb1n>(LeafC(&e.leaf[0]), LeafN(&e.leaf[1])), "fallback_C_N");
    });
    // type-erased references as the default: to a node-only composable leaf and to a full one
    using FbAny = fm::fallback_allocator<fm::any_allocator_reference, LeafA>;
    static CompReg r_fbanyc("fallback_anyC_A", [](Env& e) -> Comp* {
        return named(new RawComp<FbAny>(fm::any_allocator_reference(e.lc[0]), LeafA(&e.leaf[1])), "fallback_anyC_A");
    });
    static CompReg r_fbanyac("fallback_anyAC_A", [](Env& e) -> Comp* {
        return named(new RawComp<FbAny>(fm::any_allocator_reference(e.lac[0]), LeafA(&e.leaf[1])), "fallback_anyAC_A");
    });
    using Fb2 = fm::fallback_allocator<Fb1c, LeafA>;
    static CompReg r_fb2("fallback_fallback_AC_AC__A", [](Env& e) -> Comp* {
        return named(new RawComp<Fb2>(Fb1c(LeafAC(&e.leaf[0]), LeafAC(&e.leaf[1])), LeafA(&e.leaf[2])),
                     "fallback_fallback_AC_AC__A");
    });
    using Fb3 = fm::fallback_allocator<fm::aligned_allocator<LeafAC>, Fb1>;
    static CompReg r_fb3("fallback_alignedAC__fallback_AC_A", [](Env& e) -> Comp* {
        return named(new RawComp<Fb3>(fm::aligned_allocator<LeafAC>(e.min_align, LeafAC(&e.leaf[0])),
                                      Fb1(LeafAC(&e.leaf[1]), LeafA(&e.leaf[2]))),
                     "fallback_alignedAC__fallback_AC_A");
    });
    using LeafAC2 = Leaf<true, true, 2>;
    using Fb4     = fm::fallback_allocator<fm::fallback_allocator<Fb1c, LeafAC2>, LeafA>;
    static CompReg r_fb4("fallback3", [](Env& e) -> Comp* {
        return named(new RawComp<Fb4>(fm::fallback_allocator<Fb1c, LeafAC2>(Fb1c(LeafAC(&e.leaf[0]),
                                                                                 LeafAC(&e.leaf[1])),
                                                                            LeafAC2(&e.leaf[2])),
                                      LeafA(&e.leaf[3])),
                     "fallback3");
    });
    using FbTr = fm::fallback_allocator<fm::tracked_allocator<Tracker, LeafAC>, LeafA>;
    static CompReg r_fbtr("fallback_trackedAC_A", [](Env& e) -> Comp* {
        auto c = named(new RawComp<FbTr>(fm::tracked_allocator<Tracker, LeafAC>(Tracker{&e.track},
                                                                                LeafAC(&e.leaf[0])),
                                         LeafA(&e.leaf[1])),
                       "fallback_trackedAC_A");
        c->has_tracker  = true; // only what the default (leaf 0) serves passes the tracker
        c->tracked_leaf = 0;
        return c;
    });

    //=== memory resources ===//
    template <class L>
    class PmrComp : public Comp
    {
    public:
        explicit PmrComp(L l) : res_(std::move(l))
        {
            bytes_only = true;
            array_ok   = false;
        }
        void* alloc(const Req& r) override
        {
            return static_cast<fm::memory_resource&>(res_).allocate(r.size, r.align);
        }
        bool dealloc(const Req& r, void* p) override
        {
            static_cast<fm::memory_resource&>(res_).deallocate(p, r.size, r.align);
            return true;
        }
        std::size_t max_node() override
        {
            return std::size_t(-1);
        }
        std::size_t max_array() override
        {
            return std::size_t(-1);
        }
        std::size_t max_align() override
        {
            return 4096;
        }
        fm::memory_resource_adapter<L> res_;
    };
    static CompReg r_pmr1("pmr_adapter_A", [](Env& e) -> Comp* {
        return named(new PmrComp<LeafA>(LeafA(&e.leaf[0])), "pmr_adapter_A");
    });
    static CompReg r_pmr2("pmr_adapter_N", [](Env& e) -> Comp* {
        return named(new PmrComp<LeafN>(LeafN(&e.leaf[0])), "pmr_adapter_N");
    });
    // memory_resource_allocator (RawAllocator over a memory_resource) over memory_resource_adapter over a leaf
    template <class L>
    struct HeldRes
    {
        fm::memory_resource_adapter<L> res;
        explicit HeldRes(L l) : res(std::move(l)) {}
    };
    template <class L>
    struct ResAllocComp : HeldRes<L>, RawComp<fm::memory_resource_allocator>
    {
        explicit ResAllocComp(L l)
        : HeldRes<L>(std::move(l)), RawComp<fm::memory_resource_allocator>(&this->res)
        {
        }
        bool move_assign_from(Comp&) override
        {
            return false; // the allocator points at the resource held next to it
        }
    };
    static CompReg r_pmr3("resalloc_pmr_A", [](Env& e) -> Comp* {
        return named(new ResAllocComp<LeafA>(LeafA(&e.leaf[0])), "resalloc_pmr_A");
    });
    static CompReg r_pmr4("resalloc_pmr_alignedA", [](Env& e) -> Comp* {
        return named(new ResAllocComp<fm::aligned_allocator<LeafA>>(
                         fm::aligned_allocator<LeafA>(e.min_align, LeafA(&e.leaf[0]))),
                     "resalloc_pmr_alignedA");
    });

    //=== std_allocator ===//
    template <std::size_t Size, std::size_t Align>
    struct alignas(Align) Elem
    {
        unsigned char b[Size];
    };
    template <class T, class Raw, class LeafT>
    class StdComp : public Comp
    {
    public:
        explicit StdComp(LeafT& l) : a_(l)
        {
            fixed_size  = sizeof(T);
            fixed_align = alignof(T);
        }
        void* alloc(const Req& r) override
        {
            return a_.allocate(r.array ? r.count : 1);
        }
        bool dealloc(const Req& r, void* p) override
        {
            a_.deallocate(static_cast<T*>(p), r.array ? r.count : 1);
            return true;
        }
        std::size_t max_node() override
        {
            return std::size_t(-1);
        }
        std::size_t max_array() override
        {
            return a_.max_size() * sizeof(T);
        }
        std::size_t max_align() override
        {
            return alignof(T);
        }
        fm::std_allocator<T, Raw> a_;
    };
#define STD(NAME, T, RAW, LEAFT, MEMBER)                                                           \
    static CompReg r_std_##NAME("std_" #NAME, [](Env& e) -> Comp* {                                 \
        return named(new StdComp<T, RAW, LEAFT>(e.MEMBER[0]), "std_" #NAME);                       \
    });
    using E1   = Elem<1, 1>;
    using E24  = Elem<24, 8>;
    using E128 = Elem<128, 16>;
    using E70k = Elem<70000, 8>;
    STD(char_A, E1, LeafA, LeafA, la)
    STD(e24_A, E24, LeafA, LeafA, la)
    STD(e24_N, E24, LeafN, LeafN, ln)
    STD(e128_AC, E128, LeafAC, LeafAC, lac)
    STD(e70k_A, E70k, LeafA, LeafA, la)
    STD(e24_any, E24, fm::any_allocator, LeafA, la)
    STD(e128_anyN, E128, fm::any_allocator, LeafN, ln)
} // namespace cs
