// compositions: what the library's factory functions return, null_allocator as the last allocator of a
// segregator / fallback chain, and standard-style Allocators used as RawAllocator (the std_concept path of
// allocator_traits: rebinding to char, allocate(n) / deallocate(p, n), alignment left to the Allocator)
#include "comp.hpp"

#include <mutex>

#include <foonathan/memory/aligned_allocator.hpp>
#include <foonathan/memory/allocator_storage.hpp>
#include <foonathan/memory/fallback_allocator.hpp>
#include <foonathan/memory/segregator.hpp>
#include <foonathan/memory/std_allocator.hpp>
#include <foonathan/memory/tracking.hpp>

namespace cs
{
    template <class C>
    static Comp* named(C* c, const char* n)
    {
        c->name = n;
        return c;
    }
    template <class A>
    static RawComp<typename std::decay<A>::type>* raw(A&& a)
    {
        return new RawComp<typename std::decay<A>::type>(std::forward<A>(a));
    }
    template <class A>
    static RawComp<typename std::decay<A>::type, false>* raw_nc(A&& a)
    {
        return new RawComp<typename std::decay<A>::type, false>(std::forward<A>(a));
    }

    //=== factories ===//
    static CompReg f1("mk_adapter_AC", [](Env& e) -> Comp* {
        return named(raw(fm::make_allocator_adapter(LeafAC(&e.leaf[0]))), "mk_adapter_AC");
    });
    static CompReg f2("mk_ref_A", [](Env& e) -> Comp* {
        return named(raw(fm::make_allocator_reference(e.la[0])), "mk_ref_A");
    });
    static CompReg f3("mk_any_AC", [](Env& e) -> Comp* {
        return named(raw(fm::make_any_allocator_reference(e.lac[0])), "mk_any_AC");
    });
    static CompReg f4("mk_aligned_AC", [](Env& e) -> Comp* {
        return named(raw(fm::make_aligned_allocator(e.min_align, LeafAC(&e.leaf[0]))), "mk_aligned_AC");
    });
    static CompReg f5("mk_tracked_AC", [](Env& e) -> Comp* {
        auto c         = named(raw(fm::make_tracked_allocator(Tracker{&e.track}, LeafAC(&e.leaf[0]))),
                               "mk_tracked_AC");
        c->has_tracker = true;
        return c;
    });
    static CompReg f6("mk_ts_A", [](Env& e) -> Comp* {
        return named(raw(fm::make_thread_safe_allocator<std::mutex>(LeafA(&e.leaf[0]))), "mk_ts_A");
    });
    // aligned allocator around a reference made by the factory from an lvalue (decays to the allocator type)
    static CompReg f7("mk_aligned_mk_ref_AC", [](Env& e) -> Comp* {
        return named(raw(fm::make_aligned_allocator(e.min_align, fm::make_allocator_reference(e.lac[0]))),
                     "mk_aligned_mk_ref_AC");
    });

    //=== null_allocator at the end of a chain ===//
    // make_segregator(segregatable) and make_segregator(s1, s2, null_allocator): the last fallback is null_allocator, requests no
    // segregatable wants fail with out_of_fixed_memory and nothing was served
    static CompReg n1("mk_seg_null", [](Env& e) -> Comp* {
        return named(raw(fm::make_segregator(fm::threshold(e.th1, LeafA(&e.leaf[0])))), "mk_seg_null");
    });
    static CompReg n2("mk_seg2_null", [](Env& e) -> Comp* {
        return named(raw(fm::make_segregator(fm::threshold(e.th1, LeafA(&e.leaf[0])),
                                             fm::threshold(e.th2, LeafN(&e.leaf[1])), fm::null_allocator{})),
                     "mk_seg2_null");
    });
    using SegAlias = fm::segregator<fm::threshold_segregatable<LeafN>>;
    static CompReg n3("seg_alias_null", [](Env& e) -> Comp* {
        return named(new RawComp<SegAlias>(fm::threshold(e.th2, LeafN(&e.leaf[0])), fm::null_allocator{}),
                     "seg_alias_null");
    });
    using FbNull = fm::fallback_allocator<LeafAC, fm::null_allocator>;
    static CompReg n4("fallback_AC_null", [](Env& e) -> Comp* {
        return named(new RawComp<FbNull>(LeafAC(&e.leaf[0]), fm::null_allocator{}), "fallback_AC_null");
    });
    using FbFbNull = fm::fallback_allocator<fm::fallback_allocator<LeafC, LeafAC>, fm::null_allocator>;
    static CompReg n5("fallback_fallback_C_AC__null", [](Env& e) -> Comp* {
        return named(new RawComp<FbFbNull>(fm::fallback_allocator<LeafC, LeafAC>(LeafC(&e.leaf[0]),
                                                                                LeafAC(&e.leaf[1])),
                                           fm::null_allocator{}),
                     "fallback_fallback_C_AC__null");
    });

    //=== standard-style Allocators as RawAllocator ===//
    // allocate(n) / deallocate(p, n) on the char-rebound Allocator; what it serves is logged as a node of n bytes
    // at the alignment every standard Allocator promises
    template <class T>
    struct StdLeaf
    {
        using value_type = T;
        LeafState* s;
        explicit StdLeaf(LeafState* st = nullptr) noexcept : s(st) {}
        template <class U>
        StdLeaf(const StdLeaf<U>& o) noexcept : s(o.s)
        {
        }
        T* allocate(std::size_t n)
        {
            return static_cast<T*>(s->acquire('n', 1, n * sizeof(T), alignof(std::max_align_t), true));
        }
        void deallocate(T* p, std::size_t n) noexcept
        {
            s->release('N', p, 1, n * sizeof(T), alignof(std::max_align_t), false);
        }
        template <class U>
        friend bool operator==(const StdLeaf& a, const StdLeaf<U>& b) noexcept
        {
            return a.s == b.s;
        }
        template <class U>
        friend bool operator!=(const StdLeaf& a, const StdLeaf<U>& b) noexcept
        {
            return a.s != b.s;
        }
    };
    static Comp* stdstyle(Comp* c)
    {
        c->align_cap = alignof(std::max_align_t);
        return c;
    }
    // adapter given an Allocator for another value type: allocator_traits rebinds it to char
    static CompReg s1("stdstyle_adapter", [](Env& e) -> Comp* {
        return stdstyle(named(new RawComp<fm::allocator_adapter<StdLeaf<int>>>(StdLeaf<char>(&e.leaf[0])),
                              "stdstyle_adapter"));
    });
    template <class Outer>
    struct StdHeld
    {
        StdLeaf<char> held;
    };
    template <class Outer, bool Composable = false>
    struct StdHeldComp : StdHeld<Outer>, RawComp<Outer, Composable>
    {
        explicit StdHeldComp(LeafState* s) : StdHeld<Outer>{StdLeaf<char>(s)}, RawComp<Outer, Composable>(this->held)
        {
        }
        bool move_assign_from(Comp&) override
        {
            return false; // refers to the Allocator held next to it
        }
    };
    static CompReg s2("stdstyle_ref", [](Env& e) -> Comp* {
        return stdstyle(named(new StdHeldComp<fm::allocator_reference<StdLeaf<char>>>(&e.leaf[0]), "stdstyle_ref"));
    });
    static CompReg s3("stdstyle_any", [](Env& e) -> Comp* {
        return stdstyle(named(new StdHeldComp<fm::any_allocator_reference>(&e.leaf[0]), "stdstyle_any"));
    });
    static CompReg s4("stdstyle_tracked", [](Env& e) -> Comp* {
        auto c = named(new RawComp<fm::tracked_allocator<Tracker, StdLeaf<char>>, false>(Tracker{&e.track},
                                                                                       StdLeaf<char>(&e.leaf[0])),
                       "stdstyle_tracked");
        c->has_tracker = true;
        return stdstyle(c);
    });
    static CompReg s5("stdstyle_seg", [](Env& e) -> Comp* {
        return stdstyle(named(raw(fm::make_segregator(fm::threshold(e.th1, StdLeaf<char>(&e.leaf[0])),
                                                      StdLeaf<char>(&e.leaf[1]))),
                              "stdstyle_seg"));
    });
    static CompReg s6("stdstyle_ts", [](Env& e) -> Comp* {
        return stdstyle(named(raw(fm::make_thread_safe_allocator<std::mutex>(StdLeaf<char>(&e.leaf[0]))),
                              "stdstyle_ts"));
    });
    // the real thing: std::allocator itself (stateless; nothing to log, the composition must still hand out usable
    // memory and take it back) is left to the smart mode
} // namespace cs
