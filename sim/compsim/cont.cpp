#include "cont.hpp"

using namespace sim;

namespace cs
{
    std::map<std::string, ContRunner>& cont_registry()
    {
        static std::map<std::string, ContRunner> r;
        return r;
    }

    void run_cont(const Plan& plan, RunResult& res, RunHash& hash)
    {
        static Env env;
        env.reset();
        auto it = cont_registry().find(plan.get("cont"));
        if (it == cont_registry().end())
        {
            res.skip = "unknown container combination " + plan.get("cont");
            return;
        }
        stats().hit("cont." + plan.get("cont"));
        ContCtx ctx;
        ctx.env  = &env;
        ctx.hash = &hash;
        auto& heap = SimHeap::get();
        heap.begin_op(0);
        try
        {
            it->second(plan, ctx);
        }
        catch (Violation& v)
        {
            res.violated = true;
            res.v        = v;
        }
        heap.end_op();
        res.nontrivial = ctx.ops_done >= 4 && ctx.cross_ops >= 1;
    }
} // namespace cs
