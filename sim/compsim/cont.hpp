// compsim "cont" mode (C10): STL containers on std_allocator over two stateful logging leaves (A, B) or a
// stateless one, mirrored by the same operations on std::allocator containers.
#pragma once
#include "modes.hpp"

#include <algorithm>
#include <deque>
#include <forward_list>
#include <list>
#include <map>
#include <memory_resource>
#include <set>
#include <string>
#include <unordered_map>
#include <unordered_set>
#include <vector>

#include <foonathan/memory/container.hpp>
#include <foonathan/memory/std_allocator.hpp>
#include <foonathan/memory/memory_resource_adapter.hpp>
#include <foonathan/memory/fallback_allocator.hpp>

namespace foonathan
{
    namespace memory
    {
        template <>
        struct propagation_traits<cs::Leaf<true, false, 3>>
        {
            using propagate_on_container_swap            = std::true_type;
            using propagate_on_container_move_assignment = std::false_type;
            using propagate_on_container_copy_assignment = std::false_type;
            template <class AllocReference>
            static AllocReference select_on_container_copy_construction(const AllocReference& alloc)
            {
                return alloc;
            }
        };
        template <>
        struct propagation_traits<cs::Leaf<true, false, 4>>
        {
            using propagate_on_container_swap            = std::true_type;
            using propagate_on_container_move_assignment = std::true_type;
            using propagate_on_container_copy_assignment = std::false_type;
            template <class AllocReference>
            static AllocReference select_on_container_copy_construction(const AllocReference& alloc)
            {
                return alloc;
            }
        };
        // a user's allocator with shared semantics (copies refer to the same state)
        template <>
        struct is_shared_allocator<cs::Leaf<true, false, 9>> : std::true_type
        {
        };
    } // namespace memory
} // namespace foonathan

namespace cs
{
    using LeafShared = Leaf<true, false, 9>;
    // element types: an int value padded to a size / alignment
    template <std::size_t Size, std::size_t Align>
    struct alignas(Align) Val
    {
        int           v;
        unsigned char pad[Size > sizeof(int) ? Size - sizeof(int) : 1];
        Val(int x = 0) : v(x) {}
        friend bool operator<(const Val& a, const Val& b)
        {
            return a.v < b.v;
        }
        friend bool operator==(const Val& a, const Val& b)
        {
            return a.v == b.v;
        }
        int get() const
        {
            return v;
        }
    };
    struct Tiny // size 1, alignment 1
    {
        signed char v;
        Tiny(int x = 0) : v((signed char)(x % 100)) {}
        friend bool operator<(const Tiny& a, const Tiny& b)
        {
            return a.v < b.v;
        }
        friend bool operator==(const Tiny& a, const Tiny& b)
        {
            return a.v == b.v;
        }
        int get() const
        {
            return v;
        }
    };
    struct Short2 // size 2, alignment 2
    {
        short v;
        Short2(int x = 0) : v((short)(x % 10000)) {}
        friend bool operator<(const Short2& a, const Short2& b)
        {
            return a.v < b.v;
        }
        friend bool operator==(const Short2& a, const Short2& b)
        {
            return a.v == b.v;
        }
        int get() const
        {
            return v;
        }
    };
    // an element that owns something: every construction has to be matched by exactly one destruction
    struct Owner
    {
        int v;
        static long& live()
        {
            static long n = 0;
            return n;
        }
        Owner(int x = 0) : v(x)
        {
            ++live();
        }
        Owner(const Owner& o) : v(o.v)
        {
            ++live();
        }
        Owner& operator=(const Owner&) = default;
        ~Owner()
        {
            --live();
        }
        friend bool operator<(const Owner& a, const Owner& b)
        {
            return a.v < b.v;
        }
        friend bool operator==(const Owner& a, const Owner& b)
        {
            return a.v == b.v;
        }
        int get() const
        {
            return v;
        }
    };
    struct ValHash
    {
        template <class T>
        std::size_t operator()(const T& t) const
        {
            return std::hash<int>()(t.get());
        }
    };

    enum Cat
    {
        CAT_LIST,
        CAT_FWD,
        CAT_VEC,
        CAT_SET,
        CAT_MAP,
        CAT_STR
    };

    // kinds: C<T, Al> where Al<U> is an allocator template
    struct KList
    {
        static constexpr Cat cat = CAT_LIST;
        static constexpr const char* name = "list";
        template <class T, template <class> class Al>
        using C = std::list<T, Al<T>>;
        template <class T>
        static std::size_t node_size()
        {
            return fm::list_node_size<T>::value;
        }
    };
    struct KFwd
    {
        static constexpr Cat cat = CAT_FWD;
        static constexpr const char* name = "forward_list";
        template <class T, template <class> class Al>
        using C = std::forward_list<T, Al<T>>;
        template <class T>
        static std::size_t node_size()
        {
            return fm::forward_list_node_size<T>::value;
        }
    };
    struct KVec
    {
        static constexpr Cat cat = CAT_VEC;
        static constexpr const char* name = "vector";
        template <class T, template <class> class Al>
        using C = std::vector<T, Al<T>>;
        template <class T>
        static std::size_t node_size()
        {
            return 0;
        }
    };
    struct KDeque
    {
        static constexpr Cat cat = CAT_VEC;
        static constexpr const char* name = "deque";
        template <class T, template <class> class Al>
        using C = std::deque<T, Al<T>>;
        template <class T>
        static std::size_t node_size()
        {
            return 0;
        }
    };
    struct KSet
    {
        static constexpr Cat cat = CAT_SET;
        static constexpr const char* name = "set";
        template <class T, template <class> class Al>
        using C = std::set<T, std::less<T>, Al<T>>;
        template <class T>
        static std::size_t node_size()
        {
            return fm::set_node_size<T>::value;
        }
    };
    struct KMultiset
    {
        static constexpr Cat cat = CAT_SET;
        static constexpr const char* name = "multiset";
        template <class T, template <class> class Al>
        using C = std::multiset<T, std::less<T>, Al<T>>;
        template <class T>
        static std::size_t node_size()
        {
            return fm::multiset_node_size<T>::value;
        }
    };
    struct KUSet
    {
        static constexpr Cat cat = CAT_SET;
        static constexpr const char* name = "unordered_set";
        template <class T, template <class> class Al>
        using C = std::unordered_set<T, ValHash, std::equal_to<T>, Al<T>>;
        template <class T>
        static std::size_t node_size()
        {
            return fm::unordered_set_node_size<T>::value;
        }
    };
    struct KUMultiset
    {
        static constexpr Cat cat = CAT_SET;
        static constexpr const char* name = "unordered_multiset";
        template <class T, template <class> class Al>
        using C = std::unordered_multiset<T, ValHash, std::equal_to<T>, Al<T>>;
        template <class T>
        static std::size_t node_size()
        {
            return fm::unordered_multiset_node_size<T>::value;
        }
    };
    struct KMap
    {
        static constexpr Cat cat = CAT_MAP;
        static constexpr const char* name = "map";
        template <class T, template <class> class Al>
        using C = std::map<int, T, std::less<int>, Al<std::pair<const int, T>>>;
        template <class T>
        static std::size_t node_size()
        {
            return fm::map_node_size<std::pair<const int, T>>::value;
        }
    };
    struct KMultimap
    {
        static constexpr Cat cat = CAT_MAP;
        static constexpr const char* name = "multimap";
        template <class T, template <class> class Al>
        using C = std::multimap<int, T, std::less<int>, Al<std::pair<const int, T>>>;
        template <class T>
        static std::size_t node_size()
        {
            return fm::multimap_node_size<std::pair<const int, T>>::value;
        }
    };
    struct KUMap
    {
        static constexpr Cat cat = CAT_MAP;
        static constexpr const char* name = "unordered_map";
        template <class T, template <class> class Al>
        using C = std::unordered_map<int, T, std::hash<int>, std::equal_to<int>,
                                     Al<std::pair<const int, T>>>;
        template <class T>
        static std::size_t node_size()
        {
            return fm::unordered_map_node_size<std::pair<const int, T>>::value;
        }
    };
    struct KString
    {
        static constexpr Cat cat = CAT_STR;
        static constexpr const char* name = "string";
        template <class T, template <class> class Al>
        using C = std::basic_string<char, std::char_traits<char>, Al<char>>;
        template <class T>
        static std::size_t node_size()
        {
            return 0;
        }
    };

    // allocator flavours
    template <class U>
    using AlTyped = fm::std_allocator<U, LeafA>;
    template <class U>
    using AlAny = fm::std_allocator<U, fm::any_allocator>;
    template <class U>
    using AlStateless = fm::std_allocator<U, StatelessLeaf<1>>;
    template <class U>
    using AlRef = std::allocator<U>;
    // leaves whose propagation is set by a propagation_traits specialisation (below): P3 propagates on swap
    // only, P4 on swap and move assignment
    using LeafP3 = Leaf<true, false, 3>;
    using LeafP4 = Leaf<true, false, 4>;
    template <class U>
    using AlP3 = fm::std_allocator<U, LeafP3>;
    template <class U>
    using AlP4 = fm::std_allocator<U, LeafP4>;
    // std_allocator over a memory_resource_allocator whose resource is a memory_resource_adapter around a leaf
    template <class U>
    using AlPmr = fm::std_allocator<U, fm::memory_resource_allocator>;
    // std_allocator over a fallback_allocator whose default is a node-only composable leaf with a small budget
    // (arrays reach it through the default array functions of the composable traits) and whose fallback is a full leaf
    // the standard's own polymorphic_allocator on a memory_resource_adapter (nothing propagates, equality is
    // memory_resource::is_equal)
    template <class U>
    using AlStdPmr = std::pmr::polymorphic_allocator<U>;
    using FbCA = fm::fallback_allocator<LeafC, LeafA>;
    template <class U>
    using AlFb = fm::std_allocator<U, FbCA>;

    struct ContCtx
    {
        Env*          env;
        sim::RunHash* hash;
        std::uint64_t ops_done = 0, cross_ops = 0;
    };

    using ContRunner = void (*)(const sim::Plan&, ContCtx&);
    std::map<std::string, ContRunner>& cont_registry();
    struct ContReg
    {
        ContReg(const std::string& n, ContRunner r)
        {
            cont_registry()[n] = r;
        }
    };

    template <class K, class T, int Flavour>
    void run_container(const sim::Plan& plan, ContCtx& ctx);
} // namespace cs
