#include "cont_impl.hpp"
namespace cs
{
    static ContReg r1("list.tiny.typed", &run_container<KList, Tiny, 0>);
    static ContReg r7("list.v24.any", &run_container<KList, Val<24, 8>, 1>);
    static ContReg r13("fwd.v128.typed", &run_container<KFwd, Val<128, 16>, 0>);
    static ContReg r19("vec.v4.typed", &run_container<KVec, Val<4, 4>, 0>);
    static ContReg r25("deque.tiny.typed", &run_container<KDeque, Tiny, 0>);
    static ContReg r31("deque.v24.any", &run_container<KDeque, Val<24, 8>, 1>);
    static ContReg r37("set.v128.typed", &run_container<KSet, Val<128, 16>, 0>);
    static ContReg r43("multiset.v4.typed", &run_container<KMultiset, Val<4, 4>, 0>);
    static ContReg r49("uset.tiny.typed", &run_container<KUSet, Tiny, 0>);
    static ContReg r55("uset.v24.any", &run_container<KUSet, Val<24, 8>, 1>);
    static ContReg r61("umultiset.v128.typed", &run_container<KUMultiset, Val<128, 16>, 0>);
    static ContReg r67("map.v4.typed", &run_container<KMap, Val<4, 4>, 0>);
    static ContReg r73("multimap.tiny.typed", &run_container<KMultimap, Tiny, 0>);
    static ContReg r79("multimap.v24.any", &run_container<KMultimap, Val<24, 8>, 1>);
    static ContReg r85("umap.v128.typed", &run_container<KUMap, Val<128, 16>, 0>);
    static ContReg r89("string.char.typed", &run_container<KString, Tiny, 0>);
} // namespace cs
