#include "cont_impl.hpp"
namespace cs
{
    static ContReg r2("list.short.typed", &run_container<KList, Short2, 0>);
    static ContReg r8("list.v4.stateless", &run_container<KList, Val<4, 4>, 2>);
    static ContReg r14("fwd.v4.any", &run_container<KFwd, Val<4, 4>, 1>);
    static ContReg r20("vec.v24.typed", &run_container<KVec, Val<24, 8>, 0>);
    static ContReg r26("deque.short.typed", &run_container<KDeque, Short2, 0>);
    static ContReg r32("deque.v4.stateless", &run_container<KDeque, Val<4, 4>, 2>);
    static ContReg r38("set.v4.any", &run_container<KSet, Val<4, 4>, 1>);
    static ContReg r44("multiset.v24.typed", &run_container<KMultiset, Val<24, 8>, 0>);
    static ContReg r50("uset.short.typed", &run_container<KUSet, Short2, 0>);
    static ContReg r56("uset.v4.stateless", &run_container<KUSet, Val<4, 4>, 2>);
    static ContReg r62("umultiset.v4.any", &run_container<KUMultiset, Val<4, 4>, 1>);
    static ContReg r68("map.v24.typed", &run_container<KMap, Val<24, 8>, 0>);
    static ContReg r74("multimap.short.typed", &run_container<KMultimap, Short2, 0>);
    static ContReg r80("multimap.v4.stateless", &run_container<KMultimap, Val<4, 4>, 2>);
    static ContReg r86("umap.v4.any", &run_container<KUMap, Val<4, 4>, 1>);
    static ContReg r90("string.char.any", &run_container<KString, Tiny, 1>);
} // namespace cs
