#include "cont_impl.hpp"
namespace cs
{
    // elements with a lifetime to balance (Owner): node containers destroy what they construct
    static ContReg o1("list.owner.typed", &run_container<KList, Owner, 0>);
    static ContReg o2("set.owner.any", &run_container<KSet, Owner, 1>);
    static ContReg o3("umap.owner.typed", &run_container<KUMap, Owner, 0>);
    static ContReg o4("fwd.owner.p4", &run_container<KFwd, Owner, 4>);
    static ContReg o5("vec.owner.any", &run_container<KVec, Owner, 1>);
    static ContReg o6("map.owner.pmr", &run_container<KMap, Owner, 5>);
    static ContReg o7("deque.owner.typed", &run_container<KDeque, Owner, 0>);
} // namespace cs
