#include "cont_impl.hpp"
namespace cs
{
    static ContReg r3("list.v4.typed", &run_container<KList, Val<4, 4>, 0>);
    static ContReg r9("fwd.tiny.typed", &run_container<KFwd, Tiny, 0>);
    static ContReg r15("fwd.v24.any", &run_container<KFwd, Val<24, 8>, 1>);
    static ContReg r21("vec.v128.typed", &run_container<KVec, Val<128, 16>, 0>);
    static ContReg r27("deque.v4.typed", &run_container<KDeque, Val<4, 4>, 0>);
    static ContReg r33("set.tiny.typed", &run_container<KSet, Tiny, 0>);
    static ContReg r39("set.v24.any", &run_container<KSet, Val<24, 8>, 1>);
    static ContReg r45("multiset.v128.typed", &run_container<KMultiset, Val<128, 16>, 0>);
    static ContReg r51("uset.v4.typed", &run_container<KUSet, Val<4, 4>, 0>);
    static ContReg r57("umultiset.tiny.typed", &run_container<KUMultiset, Tiny, 0>);
    static ContReg r63("umultiset.v24.any", &run_container<KUMultiset, Val<24, 8>, 1>);
    static ContReg r69("map.v128.typed", &run_container<KMap, Val<128, 16>, 0>);
    static ContReg r75("multimap.v4.typed", &run_container<KMultimap, Val<4, 4>, 0>);
    static ContReg r81("umap.tiny.typed", &run_container<KUMap, Tiny, 0>);
    static ContReg r87("umap.v24.any", &run_container<KUMap, Val<24, 8>, 1>);
    static ContReg r91("string.char.stateless", &run_container<KString, Tiny, 2>);
} // namespace cs
