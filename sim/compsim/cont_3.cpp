#include "cont_impl.hpp"
namespace cs
{
    static ContReg r4("list.v24.typed", &run_container<KList, Val<24, 8>, 0>);
    static ContReg r10("fwd.short.typed", &run_container<KFwd, Short2, 0>);
    static ContReg r16("fwd.v4.stateless", &run_container<KFwd, Val<4, 4>, 2>);
    static ContReg r22("vec.v4.any", &run_container<KVec, Val<4, 4>, 1>);
    static ContReg r28("deque.v24.typed", &run_container<KDeque, Val<24, 8>, 0>);
    static ContReg r34("set.short.typed", &run_container<KSet, Short2, 0>);
    static ContReg r40("set.v4.stateless", &run_container<KSet, Val<4, 4>, 2>);
    static ContReg r46("multiset.v4.any", &run_container<KMultiset, Val<4, 4>, 1>);
    static ContReg r52("uset.v24.typed", &run_container<KUSet, Val<24, 8>, 0>);
    static ContReg r58("umultiset.short.typed", &run_container<KUMultiset, Short2, 0>);
    static ContReg r64("umultiset.v4.stateless", &run_container<KUMultiset, Val<4, 4>, 2>);
    static ContReg r70("map.v4.any", &run_container<KMap, Val<4, 4>, 1>);
    static ContReg r76("multimap.v24.typed", &run_container<KMultimap, Val<24, 8>, 0>);
    static ContReg r82("umap.short.typed", &run_container<KUMap, Short2, 0>);
    static ContReg r88("umap.v4.stateless", &run_container<KUMap, Val<4, 4>, 2>);
} // namespace cs
