#include "cont_impl.hpp"
namespace cs
{
    static ContReg r5("list.v128.typed", &run_container<KList, Val<128, 16>, 0>);
    static ContReg r11("fwd.v4.typed", &run_container<KFwd, Val<4, 4>, 0>);
    static ContReg r17("vec.tiny.typed", &run_container<KVec, Tiny, 0>);
    static ContReg r23("vec.v24.any", &run_container<KVec, Val<24, 8>, 1>);
    static ContReg r29("deque.v128.typed", &run_container<KDeque, Val<128, 16>, 0>);
    static ContReg r35("set.v4.typed", &run_container<KSet, Val<4, 4>, 0>);
    static ContReg r41("multiset.tiny.typed", &run_container<KMultiset, Tiny, 0>);
    static ContReg r47("multiset.v24.any", &run_container<KMultiset, Val<24, 8>, 1>);
    static ContReg r53("uset.v128.typed", &run_container<KUSet, Val<128, 16>, 0>);
    static ContReg r59("umultiset.v4.typed", &run_container<KUMultiset, Val<4, 4>, 0>);
    static ContReg r65("map.tiny.typed", &run_container<KMap, Tiny, 0>);
    static ContReg r71("map.v24.any", &run_container<KMap, Val<24, 8>, 1>);
    static ContReg r77("multimap.v128.typed", &run_container<KMultimap, Val<128, 16>, 0>);
    static ContReg r83("umap.v4.typed", &run_container<KUMap, Val<4, 4>, 0>);
} // namespace cs
