#include "cont_impl.hpp"
namespace cs
{
    static ContReg r6("list.v4.any", &run_container<KList, Val<4, 4>, 1>);
    static ContReg r12("fwd.v24.typed", &run_container<KFwd, Val<24, 8>, 0>);
    static ContReg r18("vec.short.typed", &run_container<KVec, Short2, 0>);
    static ContReg r24("vec.v4.stateless", &run_container<KVec, Val<4, 4>, 2>);
    static ContReg r30("deque.v4.any", &run_container<KDeque, Val<4, 4>, 1>);
    static ContReg r36("set.v24.typed", &run_container<KSet, Val<24, 8>, 0>);
    static ContReg r42("multiset.short.typed", &run_container<KMultiset, Short2, 0>);
    static ContReg r48("multiset.v4.stateless", &run_container<KMultiset, Val<4, 4>, 2>);
    static ContReg r54("uset.v4.any", &run_container<KUSet, Val<4, 4>, 1>);
    static ContReg r60("umultiset.v24.typed", &run_container<KUMultiset, Val<24, 8>, 0>);
    static ContReg r66("map.short.typed", &run_container<KMap, Short2, 0>);
    static ContReg r72("map.v4.stateless", &run_container<KMap, Val<4, 4>, 2>);
    static ContReg r78("multimap.v4.any", &run_container<KMultimap, Val<4, 4>, 1>);
    static ContReg r84("umap.v24.typed", &run_container<KUMap, Val<24, 8>, 0>);
} // namespace cs
