#include "cont_impl.hpp"
namespace cs
{
    // flavours 3 / 4: propagation set by a propagation_traits specialisation (swap only / swap and move)
    static ContReg p1("list.v24.p3", &run_container<KList, Val<24, 8>, 3>);
    static ContReg p2("vec.v4.p3", &run_container<KVec, Val<4, 4>, 3>);
    static ContReg p3("set.tiny.p3", &run_container<KSet, Tiny, 3>);
    static ContReg p4("umap.v24.p3", &run_container<KUMap, Val<24, 8>, 3>);
    static ContReg p5("string.char.p3", &run_container<KString, Tiny, 3>);
    static ContReg p6("deque.v24.p3", &run_container<KDeque, Val<24, 8>, 3>);
    static ContReg q1("fwd.v24.p4", &run_container<KFwd, Val<24, 8>, 4>);
    static ContReg q2("vec.v128.p4", &run_container<KVec, Val<128, 16>, 4>);
    static ContReg q3("map.v4.p4", &run_container<KMap, Val<4, 4>, 4>);
    static ContReg q4("uset.v24.p4", &run_container<KUSet, Val<24, 8>, 4>);
    static ContReg q5("string.char.p4", &run_container<KString, Tiny, 4>);
    static ContReg q6("list.tiny.p4", &run_container<KList, Tiny, 4>);
} // namespace cs
