#include "cont_impl.hpp"
namespace cs
{
    // flavour 5: std_allocator<T, memory_resource_allocator> on a memory_resource_adapter around the leaf
    static ContReg m1("vec.v4.pmr", &run_container<KVec, Val<4, 4>, 5>);
    static ContReg m2("deque.v24.pmr", &run_container<KDeque, Val<24, 8>, 5>);
    static ContReg m3("string.char.pmr", &run_container<KString, Tiny, 5>);
    static ContReg m4("list.v24.pmr", &run_container<KList, Val<24, 8>, 5>);
    static ContReg m5("map.v128.pmr", &run_container<KMap, Val<128, 16>, 5>);
    static ContReg m6("uset.tiny.pmr", &run_container<KUSet, Tiny, 5>);
    static ContReg m7("vec.v128.pmr", &run_container<KVec, Val<128, 16>, 5>);
} // namespace cs
