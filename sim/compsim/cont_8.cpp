#include "cont_impl.hpp"
namespace cs
{
    // flavour 6: std_allocator over fallback_allocator<node-only composable leaf, full leaf>
    static ContReg f1("vec.v4.fb", &run_container<KVec, Val<4, 4>, 6>);
    static ContReg f2("deque.v24.fb", &run_container<KDeque, Val<24, 8>, 6>);
    static ContReg f3("list.v24.fb", &run_container<KList, Val<24, 8>, 6>);
    static ContReg f4("uset.tiny.fb", &run_container<KUSet, Tiny, 6>);
    static ContReg f5("string.char.fb", &run_container<KString, Tiny, 6>);
    static ContReg f6("map.v4.fb", &run_container<KMap, Val<4, 4>, 6>);
    // an over-aligned element type (alignas(64)) in the array-based containers
    static ContReg o1("vec.v64a.typed", &run_container<KVec, Val<64, 64>, 0>);
    static ContReg o2("deque.v64a.any", &run_container<KDeque, Val<64, 64>, 1>);
} // namespace cs
