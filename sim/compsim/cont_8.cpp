#include "cont_impl.hpp"
namespace cs
{
    // flavour 6: std_allocator over fallback_allocator<node-only composable leaf, full leaf>
    static ContReg f1("vec.v4.fb", &run_container<KVec, Val<4, 4>, 6>);
    static ContReg f2("deque.v24.fb", &run_container<KDeque, Val<24, 8>, 6>);
    static ContReg f3("list.v24.fb", &run_container<KList, Val<24, 8>, 6>);
    static ContReg f4("uset.tiny.fb", &run_container<KUSet, Tiny, 6>);
    static ContReg f5("string.char.fb", &run_container<KString, Tiny, 6>);
    static ContReg f6("map.v4.fb", &run_container<KMap, Val<4, 4>, 6>);
} // namespace cs
