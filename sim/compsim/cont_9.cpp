#include "cont_impl.hpp"
namespace cs
{
    // flavour 7: the standard's polymorphic_allocator (std::pmr containers) on memory_resource_adapter<leaf>
    static ContReg s1("vec.v4.stdpmr", &run_container<KVec, Val<4, 4>, 7>);
    static ContReg s2("list.v24.stdpmr", &run_container<KList, Val<24, 8>, 7>);
    static ContReg s3("map.v24.stdpmr", &run_container<KMap, Val<24, 8>, 7>);
    static ContReg s4("uset.tiny.stdpmr", &run_container<KUSet, Tiny, 7>);
    static ContReg s5("string.char.stdpmr", &run_container<KString, Tiny, 7>);
    static ContReg s6("deque.v24.stdpmr", &run_container<KDeque, Val<24, 8>, 7>);
} // namespace cs
