// implementation of the container driver (included by the cont_*.cpp translation units)
#pragma once
#include <cstring>
#include "cont.hpp"

#include <memory>

namespace cs
{
    namespace cont_detail
    {
        using sim::violate;

        // generic value access
        template <class T>
        int val_of(const T& t)
        {
            return t.get();
        }
        template <class K, class V>
        int val_of(const std::pair<const K, V>& p)
        {
            return p.first * 7 + p.second.get();
        }
        inline int val_of(char c)
        {
            return c;
        }

        template <class C>
        std::vector<int> contents(const C& c, bool sort)
        {
            std::vector<int> v;
            for (auto& e : c)
                v.push_back(val_of(e));
            if (sort)
                std::sort(v.begin(), v.end());
            return v;
        }

        // insert / erase by category -------------------------------------------------------------
        template <Cat cat, class T, class C>
        void do_insert(C& c, int key, int where)
        {
            if constexpr (cat == CAT_LIST)
            {
                if (where % 3 == 0)
                    c.push_front(T(key));
                else if (where % 3 == 1 || c.empty())
                    c.push_back(T(key));
                else
                {
                    auto it = c.begin();
                    std::advance(it, std::size_t(where) % c.size());
                    c.insert(it, T(key));
                }
            }
            else if constexpr (cat == CAT_FWD)
            {
                if (where % 2 == 0 || c.empty())
                    c.push_front(T(key));
                else
                    c.insert_after(c.begin(), T(key));
            }
            else if constexpr (cat == CAT_VEC)
            {
                if (where % 3 == 0 || c.empty())
                    c.push_back(T(key));
                else
                    c.insert(c.begin() + long(std::size_t(where) % c.size()), T(key));
            }
            else if constexpr (cat == CAT_SET)
                c.insert(T(key));
            else if constexpr (cat == CAT_MAP)
                c.insert(std::make_pair(key % 50, T(key)));
            else
                c.append(std::size_t(1 + where % 20), char('a' + key % 26));
        }

        template <Cat cat, class C>
        void do_erase(C& c, int which)
        {
            if (c.empty())
                return;
            if constexpr (cat == CAT_FWD)
            {
                if (which % 2 == 0)
                    c.pop_front();
                else
                    c.erase_after(c.before_begin());
            }
            else if constexpr (cat == CAT_STR)
                c.erase(std::size_t(which) % c.size(), 1 + std::size_t(which) % 5);
            else
            {
                auto it = c.begin();
                std::advance(it, std::size_t(which) % std::size_t(std::distance(c.begin(), c.end())));
                c.erase(it);
            }
        }

        template <class C>
        struct Slot
        {
            std::unique_ptr<C> c;
            int                leaf = 0; // model: which leaf its allocator refers to
        };
    } // namespace cont_detail

    template <class K, class T, int Flavour>
    void run_container(const sim::Plan& plan, ContCtx& ctx)
    {
        using namespace cont_detail;
        using sim::stats;
        constexpr Cat cat      = K::cat;
        constexpr bool unordered = std::is_same<K, KUSet>::value || std::is_same<K, KUMultiset>::value
                                   || std::is_same<K, KUMap>::value;
        using Elem = typename std::conditional<cat == CAT_STR, char, T>::type;
        using CT   = typename std::conditional<
            Flavour == 0, typename K::template C<T, AlTyped>,
            typename std::conditional<
                Flavour == 1, typename K::template C<T, AlAny>,
                typename std::conditional<
                    Flavour == 2, typename K::template C<T, AlStateless>,
                    typename std::conditional<
                        Flavour == 3, typename K::template C<T, AlP3>,
                        typename std::conditional<
                            Flavour == 4, typename K::template C<T, AlP4>,
                            typename std::conditional<
                                Flavour == 5, typename K::template C<T, AlPmr>,
                                typename std::conditional<Flavour == 6, typename K::template C<T, AlFb>,
                                                          typename K::template C<T, AlStdPmr>>::type>::type>::
                                type>::type>::type>::type>::type;
        // what the specification (propagation_traits, default: everything propagates) says about this flavour
        constexpr bool P_MOVE = Flavour != 3 && Flavour != 7, P_COPY = Flavour < 3 || Flavour == 5 || Flavour == 6;
        constexpr bool P_SWAP = Flavour != 7; // (std::pmr::polymorphic_allocator propagates nowhere)
        using RT    = typename K::template C<T, AlRef>;
        using Alloc = typename CT::allocator_type;
        (void)sizeof(Elem);

        Env& env = *ctx.env;
        if (Flavour == 2)
            StatelessLeaf<1>::state() = &env.leaf[0];
        static LeafP3 lp3[2];
        static LeafP4 lp4[2];
        for (int i = 0; i < 2; ++i)
        {
            lp3[i] = LeafP3(&env.leaf[i]);
            lp4[i] = LeafP4(&env.leaf[i]);
        }
        // flavour 5: requests above the leaf's max_node_size() travel as arrays of that size
        static std::unique_ptr<fm::memory_resource_adapter<LeafA>> pmr[2];
        if (Flavour == 5 || Flavour == 7)
            for (int i = 0; i < 2; ++i)
            {
                env.leaf[i].max_node = std::size_t(plan.num("pmr_max_node", 64));
                pmr[i].reset(new fm::memory_resource_adapter<LeafA>(LeafA(&env.leaf[i])));
            }
        // flavour 6: allocator object k = fallback_allocator(default: leaf k+2 with a small budget, fallback: leaf k)
        static std::unique_ptr<FbCA> fb[2];
        if (Flavour == 6)
            for (int i = 0; i < 2; ++i)
            {
                env.leaf[i + 2].budget = std::size_t(plan.num("fb_budget", 512));
                fb[i].reset(new FbCA(LeafC(&env.leaf[i + 2]), LeafA(&env.leaf[i])));
            }
        unsigned any_made = 0;
        auto make_alloc = [&](int leaf) -> Alloc
        {
            if constexpr (Flavour == 6)
                return Alloc(*fb[leaf]);
            else
            if constexpr (Flavour == 7)
                return Alloc(pmr[leaf].get());
            else if constexpr (Flavour == 5)
                return Alloc(fm::memory_resource_allocator(pmr[leaf].get()));
            else if constexpr (Flavour == 2)
                return Alloc(StatelessLeaf<1>{});
            else if constexpr (Flavour == 3)
                return Alloc(lp3[leaf]);
            else if constexpr (Flavour == 4)
                return Alloc(lp4[leaf]);
            else if constexpr (Flavour == 1)
            {
                // half of the time by way of another type-erased reference that is re-seated afterwards: the new
                // allocator must refer to the allocator object itself, not to the reference it was made from
                ++any_made;
                if (any_made % 3 == 0)
                {
                    // from a shared allocator (is_shared_allocator: copies refer to the same state): the type-erased
                    // reference keeps a copy, re-seating the user's handle afterwards must not move the container
                    static LeafShared handles[16];
                    auto&             h = handles[(any_made / 3) % 16];
                    h = LeafShared(&env.leaf[leaf]);
                    Alloc a(h);
                    h = LeafShared(&env.leaf[1 - leaf]);
                    return a;
                }
                if (any_made % 5 == 4)
                {
                    // assignment re-seats a type-erased allocator, also between two allocator objects of one type
                    Alloc a(env.la[1 - leaf]);
                    a = Alloc(env.la[leaf]);
                    return a;
                }
                if (any_made % 2)
                {
                    fm::any_allocator_reference tmp(env.la[leaf]);
                    Alloc                       a(tmp.get_allocator());
                    tmp = fm::any_allocator_reference(env.la[1 - leaf]);
                    (void)tmp;
                    return a;
                }
                return Alloc(env.la[leaf]);
            }
            else
                return Alloc(env.la[leaf]);
        };
        const bool stateful = Flavour != 2;

        Slot<CT> s[4];
        RT       ref[4];
        for (int i = 0; i < 4; ++i)
        {
            s[i].leaf = stateful ? (i < 2 ? 0 : 1) : 0;
            s[i].c.reset(new CT(make_alloc(s[i].leaf)));
        }
        // (a memory_resource sees bytes only: everything up to max_node_size() arrives as a node there)
        const std::size_t node_limit = (Flavour == 5 || Flavour == 7) ? 0 : K::template node_size<T>();
        const int         leaves     = Flavour == 6 ? 4 : 2;
        std::size_t       log_pos    = 0;

        std::string deferred_equality;
        const long owners_before = Owner::live();
        int        last_leaf[4]  = {s[0].leaf, s[1].leaf, s[2].leaf, s[3].leaf};
        auto check = [&](const char* what, int step)
        {
            // elements that own something: as many alive as the containers hold (here and in the reference)
            if constexpr (std::is_same<T, Owner>::value && cat != CAT_STR)
            {
                long held = 0;
                for (int i = 0; i < 4; ++i)
                    held += long(contents(*s[i].c, false).size() + contents(ref[i], false).size());
                if (Owner::live() - owners_before != held)
                    violate("C10", "element_lifetime", "%s: %ld element objects are alive, the containers hold %ld "
                                                       "(%s): an element was not destroyed, or destroyed twice",
                            what, Owner::live() - owners_before, held, K::name);
            }
            // released to an allocator that did not hand it out, or with other parameters
            if (!env.log.problem.empty())
                violate("C10", "wrong_allocator", "%s (%s<%zu-byte elements>): %s", what, K::name, sizeof(T),
                        env.log.problem.c_str());
            // node size constants: no single-node request of a node container may exceed X_node_size<T>
            for (; log_pos < env.log.calls.size(); ++log_pos)
            {
                auto& c = env.log.calls[log_pos];
                if (node_limit && c.op == 'n' && c.size > node_limit)
                    violate("C10", "node_size_too_small", "%s<%zu-byte, %zu-aligned elements> requested a node "
                                                          "of %zu bytes, %s_node_size says %zu",
                            K::name, sizeof(T), alignof(T), c.size, K::name, node_limit);
            }
            // which allocator object each container is bound to: a request made through its allocator arrives at
            // the leaf the model says (construction from handles, propagation on assignment and swap)
            if (stateful)
                for (int i = 0; i < 4; ++i)
                {
                    env.log.begin_op(0);
                    Alloc al = s[i].c->get_allocator();
                    auto  p  = al.allocate(1);
                    int   at = env.log.calls.back().leaf % 2;
                    al.deallocate(p, 1);
                    log_pos = env.log.calls.size();
                    if (Flavour == 1 && at != s[i].leaf && at == last_leaf[i] && std::strncmp(what, "cpa", 3) == 0)
                    {
                        // known finding K02 (type-erased allocators always compare equal): in a copy assignment the
                        // standard library's containers skip the propagation between "equal" allocators, the target
                        // keeps the one it had. Only there: swap and move assignment propagate unconditionally, a
                        // container that keeps its allocator across those is not K02 (seeded change C10-w8-3)
                        stats().hit("reach.any_assignment_kept_its_allocator_K02");
                        s[i].leaf = at;
                    }
                    last_leaf[i] = s[i].leaf;
                    if (at != s[i].leaf)
                        violate("C10,C09", "bound_to_wrong_allocator", "%s: container %d (%s) is bound to allocator "
                                                                   "object %d, it was given / should have kept %d",
                                what, i, K::name, at, s[i].leaf);
                }
            for (int i = 0; i < 4; ++i)
            {
                if (contents(*s[i].c, unordered) != contents(ref[i], unordered))
                    violate("C10", "contents_differ", "%s: container %d differs from the same operations on a "
                                                      "std::allocator container (%s)",
                            what, i, K::name);
                for (int j = 0; j < 4; ++j)
                {
                    bool eq   = s[i].c->get_allocator() == s[j].c->get_allocator();
                    bool want = !stateful || s[i].leaf == s[j].leaf;
                    if (Flavour == 1 && eq && !want)
                    {
                        // known finding K02 (type-erased allocators always compare equal): noted, reported at the end
                        // of the run, so that the rest of the history is still checked by every other oracle
                        if (deferred_equality.empty())
                        {
                            char b[300];
                            std::snprintf(b, sizeof b, "%s: allocators of containers %d and %d compare equal, they "
                                                       "refer to different allocator objects (%s)",
                                          what, i, j, K::name);
                            deferred_equality = b;
                        }
                        continue;
                    }
                    if (eq != want)
                        violate("C10", "allocator_equality", "%s: allocators of containers %d and %d compare %s, "
                                                             "they refer to %s allocator object (%s)",
                                what, i, j, eq ? "equal" : "unequal", want ? "the same" : "different", K::name);
                }
            }
            (void)step;
        };

        auto resync = [&](int i)
        {
            // after a failed operation only the basic guarantee holds: adopt what the container has now
            ref[i].clear();
            if constexpr (cat == CAT_FWD)
            {
                std::vector<T> tmp(s[i].c->begin(), s[i].c->end());
                for (auto it = tmp.rbegin(); it != tmp.rend(); ++it)
                    ref[i].push_front(*it);
            }
            else if constexpr (cat == CAT_STR)
                ref[i].assign(s[i].c->begin(), s[i].c->end());
            else
                for (auto& e : *s[i].c)
                    ref[i].insert(ref[i].end(), e);
        };

        int step = -1;
        for (std::size_t oi = 0; oi < plan.ops.size(); ++oi)
        {
            step          = int(oi);
            const auto& o = plan.ops[oi];
            int         a = int(o.arg(0)) & 3, b = int(o.arg(1)) & 3;
            env.log.begin_op(o.fail);
            bool failed = false;
            try
            {
                if (o.kind == "ins")
                {
                    do_insert<cat, T>(*s[a].c, int(o.arg(1)), int(o.arg(2)));
                    do_insert<cat, T>(ref[a], int(o.arg(1)), int(o.arg(2)));
                }
                else if (o.kind == "era")
                {
                    if constexpr (!unordered)
                    {
                        do_erase<cat>(*s[a].c, int(o.arg(1)));
                        do_erase<cat>(ref[a], int(o.arg(1)));
                    }
                    else if (!s[a].c->empty())
                    {
                        // unordered: erase by key of the n-th element of the reference
                        auto it = ref[a].begin();
                        std::advance(it, std::size_t(o.arg(1)) % ref[a].size());
                        if constexpr (cat == CAT_MAP)
                        {
                            auto key = it->first;
                            ref[a].erase(key);
                            s[a].c->erase(key);
                        }
                        else
                        {
                            auto key = *it;
                            ref[a].erase(key);
                            s[a].c->erase(key);
                        }
                    }
                }
                else if (o.kind == "clr")
                {
                    s[a].c->clear();
                    ref[a].clear();
                }
                else if (o.kind == "cpa" && a != b)
                {
                    *s[a].c   = *s[b].c; // propagate_on_container_copy_assignment: the reference travels
                    ref[a]    = ref[b];
                    if (P_COPY)
                        s[a].leaf = s[b].leaf;
                    else
                        stats().hit("reach.container_assign_without_propagation");
                    ++ctx.cross_ops;
                }
                else if (o.kind == "mva" && a != b)
                {
                    *s[a].c   = std::move(*s[b].c);
                    ref[a]    = std::move(ref[b]);
                    ref[b].clear();
                    s[b].c->clear();
                    if (P_MOVE)
                        s[a].leaf = s[b].leaf;
                    else
                        stats().hit("reach.container_assign_without_propagation");
                    ++ctx.cross_ops;
                }
                else if (o.kind == "swp" && a != b && !P_SWAP && s[a].leaf != s[b].leaf)
                {
                    // (swapping containers whose allocators are unequal and do not propagate is undefined)
                }
                else if (o.kind == "cpc" && a != b && Flavour == 7)
                {
                    // (polymorphic_allocator::select_on_container_copy_construction takes the default resource,
                    //  not an allocator under test: copy with the allocator given explicitly instead)
                    s[a].c.reset();
                    s[a].c.reset(new CT(*s[b].c, make_alloc(s[b].leaf)));
                    ref[a]    = ref[b];
                    s[a].leaf = s[b].leaf;
                    ++ctx.cross_ops;
                }
                else if (o.kind == "swp" && a != b)
                {
                    using std::swap;
                    swap(*s[a].c, *s[b].c);
                    swap(ref[a], ref[b]);
                    std::swap(s[a].leaf, s[b].leaf);
                    ++ctx.cross_ops;
                }
                else if (o.kind == "cpc" && a != b)
                {
                    s[a].c.reset();
                    s[a].c.reset(new CT(*s[b].c)); // select_on_container_copy_construction: same allocator
                    ref[a]    = ref[b];
                    s[a].leaf = s[b].leaf;
                    ++ctx.cross_ops;
                }
                else if (o.kind == "mvc" && a != b)
                {
                    s[a].c.reset();
                    s[a].c.reset(new CT(std::move(*s[b].c)));
                    ref[a] = std::move(ref[b]);
                    ref[b].clear();
                    s[b].c->clear();
                    s[a].leaf = s[b].leaf;
                    ++ctx.cross_ops;
                }
                else if (o.kind == "cpx" && a != b)
                {
                    // copy with an explicitly given allocator (of the other group)
                    int leaf = stateful ? 1 - s[b].leaf : 0;
                    s[a].c.reset();
                    s[a].c.reset(new CT(*s[b].c, make_alloc(leaf)));
                    ref[a]    = ref[b];
                    s[a].leaf = leaf;
                    ++ctx.cross_ops;
                }
                else if (o.kind == "spl" && a != b)
                {
                    // operations the standard only allows for equal allocators: issued iff the library says equal
                    if (s[a].c->get_allocator() == s[b].c->get_allocator())
                    {
                        if constexpr (cat == CAT_LIST)
                        {
                            s[a].c->splice(s[a].c->begin(), *s[b].c);
                            ref[a].splice(ref[a].begin(), ref[b]);
                            stats().hit("reach.container_splice");
                        }
                        else if constexpr (cat == CAT_FWD)
                        {
                            s[a].c->splice_after(s[a].c->before_begin(), *s[b].c);
                            ref[a].splice_after(ref[a].before_begin(), ref[b]);
                            stats().hit("reach.container_splice");
                        }
                        else if constexpr (cat == CAT_SET || cat == CAT_MAP)
                        {
                            s[a].c->merge(*s[b].c);
                            ref[a].merge(ref[b]);
                            stats().hit("reach.container_merge");
                        }
                    }
                }
                else if (o.kind == "rsv")
                {
                    if constexpr (cat == CAT_STR || std::is_same<K, KVec>::value)
                    {
                        s[a].c->reserve(std::size_t(o.arg(1)) % 300);
                        s[a].c->shrink_to_fit();
                    }
                    else if constexpr (unordered)
                        s[a].c->rehash(std::size_t(o.arg(1)) % 64);
                }
            }
            catch (const std::bad_alloc&)
            {
                failed = true;
            }
            catch (const std::length_error&)
            {
                failed = true;
            }
            ++ctx.ops_done;
            ctx.hash->add(0xC0 + (failed ? 1 : 0));
            ctx.hash->add(env.leaf[0].live.size() * 131 + env.leaf[1].live.size());
            if (env.log.fired)
                stats().hit("fault.leaf_failure_fired");
            if (failed)
            {
                stats().hit("reach.container_op_failed");
                for (int i = 0; i < 4; ++i)
                {
                    if (!s[i].c) // copy/move construction failed after the old container was destroyed
                        s[i].c.reset(new CT(make_alloc(s[i].leaf)));
                    resync(i);
                }
                // a propagating assignment that fails half way has replaced the target's allocator or has not (basic
                // guarantee): see where a request made through the container's allocator arrives
                if (stateful && (o.kind == "cpa" || o.kind == "mva") && a != b && s[a].leaf != s[b].leaf)
                {
                    env.log.begin_op(0);
                    Alloc al = s[a].c->get_allocator();
                    auto  p  = al.allocate(1);
                    int   at = env.log.calls.back().leaf % 2; // (flavour 6: leaves k and k+2 belong to allocator object k)
                    al.deallocate(p, 1);
                    if (at != s[a].leaf && at != s[b].leaf)
                        violate("C10", "wrong_allocator", "%s failed and left the target bound to a third allocator",
                                o.kind.c_str());
                    if (at != s[a].leaf)
                        stats().hit("reach.failed_assignment_had_propagated");
                    s[a].leaf = at;
                }
            }
            check(o.kind.c_str(), step);
        }
        // destruction in a drawn order; then every leaf must have everything back
        for (int k = 0; k < 4; ++k)
            s[(k + int(plan.num("end", 0))) & 3].c.reset();
        if (!env.log.problem.empty())
            violate("C10", "wrong_allocator", "on destruction (%s): %s", K::name, env.log.problem.c_str());
        for (int l = 0; l < leaves; ++l)
            if (!env.leaf[l].live.empty())
                violate("C10", "memory_not_returned", "allocator %d still has %zu allocation(s) after all %s "
                                                      "containers are gone",
                        l, env.leaf[l].live.size(), K::name);
        if (!deferred_equality.empty())
            violate("C10", "allocator_equality", "%s", deferred_equality.c_str());
    }
} // namespace cs
