// compsim "deep" mode (C09 trackers, C12 moves): deeply_tracked_allocator around a pool / a stack whose blocks
// come from a logging leaf. Every block the arena takes or gives back between construction and destruction is one
// growth / shrink event, every node operation one node event, and all of them arrive at the tracker that lives
// inside the allocator object which owns the memory NOW (after move construction / move assignment too).
#include "modes.hpp"

#include <functional>
#include <memory>
#include <vector>

#include <foonathan/memory/memory_pool.hpp>
#include <foonathan/memory/memory_stack.hpp>
#include <foonathan/memory/tracking.hpp>

using namespace sim;

namespace cs
{
    namespace
    {
        struct DeepEvent
        {
            char        op;
            void*       ptr;
            std::size_t count, size, align;
            const void* tracker; // address of the tracker object that was called
        };
        struct DeepLog
        {
            std::vector<DeepEvent> ev;
        };
        struct DTracker
        {
            DeepLog* log = nullptr;
            void     on_node_allocation(void* p, std::size_t size, std::size_t align) noexcept
            {
                if (log)
                    log->ev.push_back({'n', p, 1, size, align, this});
            }
            void on_array_allocation(void* p, std::size_t count, std::size_t size, std::size_t align) noexcept
            {
                if (log)
                    log->ev.push_back({'a', p, count, size, align, this});
            }
            void on_node_deallocation(void* p, std::size_t size, std::size_t align) noexcept
            {
                if (log)
                    log->ev.push_back({'N', p, 1, size, align, this});
            }
            void on_array_deallocation(void* p, std::size_t count, std::size_t size, std::size_t align) noexcept
            {
                if (log)
                    log->ev.push_back({'A', p, count, size, align, this});
            }
            void on_allocator_growth(void* p, std::size_t size) noexcept
            {
                if (log)
                    log->ev.push_back({'g', p, 1, size, 0, this});
            }
            void on_allocator_shrinking(void* p, std::size_t size) noexcept
            {
                if (log)
                    log->ev.push_back({'s', p, 1, size, 0, this});
            }
        };

        using PoolT  = fm::memory_pool<fm::node_pool, fm::growing_block_allocator<LeafA>>;
        using StackT = fm::memory_stack<fm::growing_block_allocator<LeafA>>;
        using DPool  = fm::deeply_tracked_allocator<DTracker, PoolT>;
        using DStack = fm::deeply_tracked_allocator<DTracker, StackT>;

        struct Live
        {
            void*       p;
            std::size_t size;
            int         obj;
        };

        template <class D>
        struct Runner
        {
            Env&                             env;
            DeepLog                          log;
            std::vector<std::unique_ptr<D>>  objs; // objs[k] may be null (destroyed)
            std::vector<std::function<void(D&)>> to_bottom; // stacks: unwind to the position after construction
            std::vector<Live>                live;
            std::size_t                      leaf_pos = 0, ev_pos = 0;
            std::uint64_t                    cases = 0;
            std::size_t                      node_size;

            explicit Runner(Env& e) : env(e) {}

            // compares what happened at the leaf since the last call with the events since the last call;
            // `who`: the object whose tracker must have been called; construction / destruction are exempt from
            // block events (documented: the first and the last calls are not reported)
            void settle(const char* what, D* who, bool block_events_expected, bool lenient = false)
            {
                if (lenient)
                {
                    // (a move assignment releases the target's old blocks half way through the exchange of the
                    //  trackers: which tracker hears about them is not specified anywhere)
                    leaf_pos = env.log.calls.size();
                    ev_pos   = log.ev.size();
                    if (!env.log.problem.empty())
                        violate("C09,C12", "release_mismatch", "%s: %s", what, env.log.problem.c_str());
                    return;
                }
                std::vector<const Call*> blocks;
                for (; leaf_pos < env.log.calls.size(); ++leaf_pos)
                {
                    auto& c = env.log.calls[leaf_pos];
                    if (c.ok || !c.is_alloc())
                        blocks.push_back(&c);
                }
                std::vector<const DeepEvent*> gs;
                for (auto k = ev_pos; k < log.ev.size(); ++k)
                    if (log.ev[k].op == 'g' || log.ev[k].op == 's')
                        gs.push_back(&log.ev[k]);
                if (block_events_expected)
                {
                    if (gs.size() != blocks.size())
                        violate("C09,C12", "tracker_events", "%s: the arena made %zu block request(s)/release(s) at "
                                                             "its upstream, the tracker saw %zu growth/shrink "
                                                             "event(s)",
                                what, blocks.size(), gs.size());
                    for (std::size_t i = 0; i < gs.size(); ++i)
                    {
                        bool acq = blocks[i]->is_alloc();
                        if ((gs[i]->op == 'g') != acq)
                            violate("C09,C12", "tracker_events", "%s: growth/shrink events do not follow the order "
                                                                 "of the upstream calls",
                                    what);
                        if (gs[i]->ptr != blocks[i]->ptr
                            || gs[i]->size != blocks[i]->count * blocks[i]->size)
                            violate("C09,C12", "tracker_events", "%s: event reports block (%p, %zu), the upstream "
                                                                 "call was about (%p, %zu)",
                                    what, gs[i]->ptr, gs[i]->size, blocks[i]->ptr,
                                    blocks[i]->count * blocks[i]->size);
                    }
                }
                else if (!gs.empty() && who == nullptr)
                    violate("C09,C12", "tracker_events", "%s: %zu growth/shrink event(s) although the allocator was "
                                                         "being constructed or destroyed",
                            what, gs.size());
                for (auto k = ev_pos; k < log.ev.size(); ++k)
                    if (who && log.ev[k].tracker != static_cast<const void*>(&who->get_tracker()))
                        violate("C09,C12", "tracker_of_wrong_object",
                                "%s: event '%c' arrived at a tracker object that is not the one inside the allocator "
                                "that owns the memory now",
                                what, log.ev[k].op);
                ev_pos = log.ev.size();
                if (!env.log.problem.empty())
                    violate("C09,C12", "release_mismatch", "%s: %s", what, env.log.problem.c_str());
            }

            void expect_node_event(const char* what, char op, void* p, std::size_t size, std::size_t before)
            {
                std::size_t n = 0;
                for (auto k = before; k < log.ev.size(); ++k)
                    if (log.ev[k].op == op)
                    {
                        ++n;
                        if (log.ev[k].ptr != p || log.ev[k].size != size)
                            violate("C09", "tracker_events", "%s: node event reports (%p, %zu), the call was about "
                                                             "(%p, %zu)",
                                    what, log.ev[k].ptr, log.ev[k].size, p, size);
                    }
                if (n != 1)
                    violate("C09", "tracker_events", "%s: %zu '%c' event(s) for one successful call", what, n, op);
            }
        };

        template <class D>
        std::unique_ptr<D> make(Runner<D>& r, int leaf, std::size_t node_size, std::size_t block_size);
        template <>
        std::unique_ptr<DPool> make(Runner<DPool>& r, int leaf, std::size_t node_size, std::size_t block_size)
        {
            return std::unique_ptr<DPool>(new DPool(
                fm::make_deeply_tracked_allocator<PoolT>(DTracker{&r.log}, node_size, block_size,
                                                         LeafA(&r.env.leaf[leaf]))));
        }
        template <>
        std::unique_ptr<DStack> make(Runner<DStack>& r, int leaf, std::size_t, std::size_t block_size)
        {
            // (make_deeply_tracked_allocator<memory_stack<...>> does not compile: it list-initialises the allocator
            //  and memory_stack's constructor is explicit; the type itself can be built directly)
            using Inner = typename DStack::allocator_type;
            return std::unique_ptr<DStack>(
                new DStack(DTracker{&r.log}, Inner(block_size, LeafA(&r.env.leaf[leaf]))));
        }

        template <class D, bool IsPool>
        void run(const Plan& plan, Env& env, RunResult& res, RunHash& hash)
        {
            Runner<D> r(env);
            r.node_size       = std::size_t(plan.num("node_size", 32));
            auto block_size   = std::size_t(plan.num("block_size", 512));
            using traits      = fm::allocator_traits<D>;
            int step          = -1;
            try
            {
                env.log.begin_op(0);
                auto remember_bottom = [&](int k)
                {
                    if constexpr (!IsPool)
                    {
                        auto m = r.objs[std::size_t(k)]->get_allocator().top();
                        r.to_bottom[std::size_t(k)] = [m](D& d)
                        {
                            d.get_allocator().unwind(m);
                            d.get_allocator().shrink_to_fit();
                        };
                    }
                };
                r.to_bottom.resize(2);
                r.objs.push_back(make<D>(r, 0, r.node_size, block_size));
                r.settle("construction", nullptr, false);
                r.objs.push_back(nullptr);
                remember_bottom(0);
                for (std::size_t oi = 0; oi < plan.ops.size(); ++oi)
                {
                    step          = int(oi);
                    const auto& o = plan.ops[oi];
                    int         k = int(o.arg(0)) & 1;
                    env.log.begin_op(0);
                    if (o.kind == "mk")
                    {
                        if (!r.objs[std::size_t(k)])
                        {
                            r.objs[std::size_t(k)] = make<D>(r, k, r.node_size, block_size);
                            r.settle("construction", nullptr, false);
                            remember_bottom(k);
                        }
                    }
                    else if (o.kind == "al" && r.objs[std::size_t(k)])
                    {
                        auto&       d    = *r.objs[std::size_t(k)];
                        std::size_t size = IsPool ? r.node_size : 1 + std::size_t(o.arg(1)) % (block_size / 3);
                        auto        b4   = r.log.ev.size();
                        void*       p    = traits::allocate_node(d, size, 1);
                        ++r.cases;
                        r.expect_node_event("allocate_node", 'n', p, size, b4);
                        r.settle("allocate_node", &d, true);
                        r.live.push_back({p, size, k});
                        hash.add(SimHeap::get().off(p));
                    }
                    else if (o.kind == "fr" && !r.live.empty())
                    {
                        auto i = std::size_t(o.arg(1)) % r.live.size();
                        auto l = r.live[i];
                        if (!r.objs[std::size_t(l.obj)])
                            continue;
                        r.live.erase(r.live.begin() + (long)i);
                        auto& d  = *r.objs[std::size_t(l.obj)];
                        auto  b4 = r.log.ev.size();
                        traits::deallocate_node(d, l.p, l.size, 1);
                        r.expect_node_event("deallocate_node", 'N', l.p, l.size, b4);
                        r.settle("deallocate_node", &d, true);
                    }
                    else if (o.kind == "shrink" && r.objs[std::size_t(k)])
                    {
                        if constexpr (!IsPool)
                        {
                            // give everything back and purge the cache: the blocks above the first one go back
                            auto& d = *r.objs[std::size_t(k)];
                            for (std::size_t i = r.live.size(); i-- > 0;)
                                if (r.live[i].obj == k)
                                    r.live.erase(r.live.begin() + (long)i);
                            r.to_bottom[std::size_t(k)](d);
                            r.settle("unwind + shrink_to_fit", &d, true);
                            stats().hit("reach.deep_stack_shrunk");
                        }
                    }
                    else if (o.kind == "mv" && r.objs[std::size_t(k)])
                    {
                        // move construction into a new object; the old one is destroyed at once or a little later
                        std::unique_ptr<D> n(new D(std::move(*r.objs[std::size_t(k)])));
                        r.settle("move construction", n.get(), true);
                        if (o.arg(1) % 2)
                        {
                            r.objs[std::size_t(k)].reset(); // the moved-from object goes first
                            r.settle("destruction of a moved-from object", nullptr, true);
                        }
                        r.objs[std::size_t(k)] = std::move(n);
                        r.settle("destruction of a moved-from object", nullptr, true);
                        stats().hit("reach.deep_move_constructed");
                    }
                    else if (o.kind == "mva" && r.objs[0] && r.objs[1])
                    {
                        // objs[k] = std::move(objs[1-k]); the target's memory goes away (its allocations end), the
                        // moved-from source is destroyed at once or stays until the end
                        int t = k, s = 1 - k;
                        for (std::size_t i = r.live.size(); i-- > 0;)
                            if (r.live[i].obj == t)
                                r.live.erase(r.live.begin() + (long)i);
                        *r.objs[std::size_t(t)] = std::move(*r.objs[std::size_t(s)]);
                        r.settle("move assignment", nullptr, false, true);
                        r.to_bottom[std::size_t(t)] = r.to_bottom[std::size_t(s)];
                        for (auto& l : r.live)
                            if (l.obj == s)
                                l.obj = t;
                        if (o.arg(1) % 2)
                        {
                            r.objs[std::size_t(s)].reset();
                            r.settle("destruction of a moved-from object", nullptr, true);
                        }
                        else
                        {
                            // (kept: it must stay harmless; it is re-made on demand by "mk" only after destruction)
                            auto husk = std::move(r.objs[std::size_t(s)]);
                            r.objs[std::size_t(s)].reset();
                            husk.reset();
                            r.settle("destruction of a moved-from object", nullptr, true);
                        }
                        stats().hit("reach.deep_move_assigned");
                    }
                    else if (o.kind == "ds" && r.objs[std::size_t(k)])
                    {
                        for (std::size_t i = r.live.size(); i-- > 0;)
                            if (r.live[i].obj == k)
                                r.live.erase(r.live.begin() + (long)i);
                        r.objs[std::size_t(k)].reset();
                        r.settle("destruction", nullptr, false);
                    }
                }
                step = int(plan.ops.size());
                env.log.begin_op(0);
                r.objs.clear();
                r.settle("destruction", nullptr, false);
                for (int l = 0; l < 2; ++l)
                    if (!env.leaf[l].live.empty())
                        violate("C09,C12,C05", "memory_not_returned", "leaf %d still has %zu block(s) after all "
                                                                      "allocators are gone",
                                l, env.leaf[l].live.size());
            }
            catch (Violation& v)
            {
                v.step       = step;
                res.violated = true;
                res.v        = v;
                for (auto& o : r.objs)
                    o.release(); // abandoned
            }
            catch (const std::bad_alloc&)
            {
                res.skip = "allocation failed in deep mode";
                for (auto& o : r.objs)
                    o.release();
            }
            stats().hit("reach.deep_cases", r.cases);
            res.nontrivial = r.cases >= 3;
        }
    } // namespace

    namespace
    {
        // tracked_block_allocator: a block allocator adapter with a tracker of its own. Every block that passes it - the
        // first one in the constructor of the stack and the last one in its destructor included - is one growth /
        // shrink event with the block's address and size, at the tracker inside the object that owns the blocks now.
        using TBA    = fm::tracked_block_allocator<DTracker, fm::growing_block_allocator<LeafA>>;
        using TStack = fm::memory_stack<TBA>;

        void run_tba(const Plan& plan, Env& env, RunResult& res, RunHash& hash)
        {
            DeepLog                 log;
            std::unique_ptr<TStack> objs[2];
            std::unique_ptr<TStack::marker> bottom[2]; // (markers have no default constructor)
            std::size_t             leaf_pos = 0, ev_pos = 0;
            std::uint64_t           cases    = 0;
            auto                    block_size = std::size_t(plan.num("block_size", 512));
            int                     step       = -1;
            // who: the tracker that must have been called (nullptr: not judged)
            auto settle = [&](const char* what, const void* who)
            {
                std::vector<const Call*> blocks;
                for (; leaf_pos < env.log.calls.size(); ++leaf_pos)
                {
                    auto& c = env.log.calls[leaf_pos];
                    if (c.ok || !c.is_alloc())
                        blocks.push_back(&c);
                }
                auto n = log.ev.size() - ev_pos;
                if (n != blocks.size())
                    violate("C09,C12", "tracker_events", "%s: %zu block request(s)/release(s) reached the wrapped block "
                                                         "allocator's upstream, the tracker saw %zu event(s)",
                            what, blocks.size(), n);
                for (std::size_t i = 0; i < n; ++i)
                {
                    auto& e = log.ev[ev_pos + i];
                    if ((e.op == 'g') != blocks[i]->is_alloc() || (e.op != 'g' && e.op != 's'))
                        violate("C09,C12", "tracker_events", "%s: event '%c' does not match the upstream call", what,
                                e.op);
                    if (e.ptr != blocks[i]->ptr || e.size != blocks[i]->count * blocks[i]->size)
                        violate("C09,C12", "tracker_events", "%s: event reports block (%p, %zu), the upstream call was "
                                                             "about (%p, %zu)",
                                what, e.ptr, e.size, blocks[i]->ptr, blocks[i]->count * blocks[i]->size);
                    if (who && e.tracker != who)
                        violate("C09,C12", "tracker_of_wrong_object", "%s: event '%c' arrived at a tracker object "
                                                                      "that is not the one inside the block allocator "
                                                                      "of the stack that owns the memory now",
                                what, e.op);
                }
                ev_pos = log.ev.size();
                ++cases;
                if (!env.log.problem.empty())
                    violate("C09,C12", "release_mismatch", "%s: %s", what, env.log.problem.c_str());
            };
            auto tracker_of = [](TStack& s) -> const void*
            { return static_cast<const void*>(&s.get_allocator().get_tracker()); };
            auto make = [&](int k)
            {
                objs[k].reset(new TStack(block_size, DTracker{&log}, LeafA(&env.leaf[k])));
                settle("construction of the stack (first block)", tracker_of(*objs[k]));
                bottom[k].reset(new TStack::marker(objs[k]->top()));
            };
            try
            {
                env.log.begin_op(0);
                make(0);
                for (std::size_t oi = 0; oi < plan.ops.size(); ++oi)
                {
                    step          = int(oi);
                    const auto& o = plan.ops[oi];
                    int         k = int(o.arg(0)) & 1;
                    env.log.begin_op(0);
                    if (o.kind == "mk" && !objs[k])
                        make(k);
                    else if (o.kind == "al" && objs[k])
                    {
                        auto  size = 1 + std::size_t(o.arg(1)) % (block_size / 3);
                        void* p    = objs[k]->allocate(size, 1);
                        hash.add(SimHeap::get().off(p));
                        settle("allocate", tracker_of(*objs[k]));
                    }
                    else if (o.kind == "fr" && objs[k])
                    {
                        objs[k]->unwind(*bottom[k]); // (the blocks above the first one go to the cache: no events)
                        settle("unwind", tracker_of(*objs[k]));
                    }
                    else if (o.kind == "shrink" && objs[k])
                    {
                        objs[k]->unwind(*bottom[k]);
                        objs[k]->shrink_to_fit();
                        settle("unwind + shrink_to_fit", tracker_of(*objs[k]));
                        stats().hit("reach.tracked_block_allocator_shrunk");
                    }
                    else if (o.kind == "mv" && objs[k])
                    {
                        std::unique_ptr<TStack> n(new TStack(std::move(*objs[k])));
                        settle("move construction", tracker_of(*n));
                        objs[k].reset();
                        settle("destruction of a moved-from stack", nullptr);
                        objs[k] = std::move(n);
                        stats().hit("reach.tracked_block_allocator_moved");
                    }
                    else if (o.kind == "mva" && objs[0] && objs[1])
                    {
                        *objs[k] = std::move(*objs[1 - k]);
                        settle("move assignment", nullptr); // (count and parameters; which tracker hears about the
                                                            //  target's old blocks is not specified)
                        bottom[k].reset(new TStack::marker(*bottom[1 - k]));
                        objs[1 - k].reset();
                        settle("destruction of a moved-from stack", nullptr);
                        stats().hit("reach.tracked_block_allocator_move_assigned");
                    }
                    else if (o.kind == "ds" && objs[k])
                    {
                        auto who = tracker_of(*objs[k]);
                        objs[k].reset();
                        settle("destruction of the stack (all its blocks)", who);
                    }
                }
                step = int(plan.ops.size());
                env.log.begin_op(0);
                for (int k = 0; k < 2; ++k)
                    if (objs[k])
                    {
                        auto who = tracker_of(*objs[k]);
                        objs[k].reset();
                        settle("destruction of the stack (all its blocks)", who);
                    }
                for (int l = 0; l < 2; ++l)
                    if (!env.leaf[l].live.empty())
                        violate("C09,C12,C05", "memory_not_returned", "leaf %d still has %zu block(s) after all stacks "
                                                                      "are gone",
                                l, env.leaf[l].live.size());
            }
            catch (Violation& v)
            {
                v.step       = step;
                res.violated = true;
                res.v        = v;
                for (auto& o : objs)
                    o.release(); // abandoned
            }
            catch (const std::bad_alloc&)
            {
                res.skip = "allocation failed in deep mode";
                for (auto& o : objs)
                    o.release();
            }
            stats().hit("reach.tracked_block_allocator_cases", cases);
            res.nontrivial = cases >= 3;
        }
    } // namespace

    void run_deep(const Plan& plan, RunResult& res, RunHash& hash)
    {
        static Env env;
        env.reset();
        auto& heap = SimHeap::get();
        heap.begin_op(0);
        if (plan.num("variant", 0) % 3 == 2)
            run_tba(plan, env, res, hash);
        else if (plan.num("variant", 0) % 2 == 0)
            run<DPool, true>(plan, env, res, hash);
        else
            run<DStack, false>(plan, env, res, hash);
        heap.end_op();
    }
} // namespace cs
