// compsim plan generator
#include "modes.hpp"
#include "cont.hpp"

using namespace sim;

namespace cs
{
    Plan generate(const std::string& profile_in, std::uint64_t seed)
    {
        Rng         r(seed);
        Plan        p;
        std::string profile = profile_in;
        bool        thorough = false;
        auto        dot      = profile.find('.');
        if (dot != std::string::npos)
        {
            thorough = profile.substr(dot + 1) == "thorough";
            profile  = profile.substr(0, dot);
        }
        p.set("profile", profile);
        p.set("seed", (long long)seed);
        p.set("hseed", (long long)(r.next() >> 2));
        p.set("place", (long long)r.below(PLACE_COUNT));
        std::size_t len = thorough ? r.range(20, 200) : r.range(6, 60);

        if (profile == "C09" || profile == "C08" || profile == "C03W" || profile == "C12W")
        {
            p.set("mode", "wrap");
            std::vector<std::string> names;
            for (auto& kv : comp_registry())
                if ((profile != "C08" || kv.first.find("fallback") != std::string::npos)
                    && ((profile != "C03W" && profile != "C12W")
                        || kv.first.find("pmr") == std::string::npos)) // (C03W, C12W: K01 lives in pmr)
                    names.push_back(kv.first);
            auto comp = names[r.below(names.size())];
            p.set("comp", comp);
            auto th1 = r.pick<long long>({8, 16, 64, 100, 256});
            p.set("th1", th1);
            p.set("th2", th1 * r.pick<long long>({2, 4, 16}));
            p.set("min_align", (long long)(1 << r.below(7)));
            bool fb = comp.find("fallback") != std::string::npos;
            if (fb || r.chance(1, 3))
            {
                // small budgets: the default runs full and empties again
                p.set("budget0", (long long)r.pick<long long>({64, 256, 1024, 4096}));
                if (r.chance(1, 2))
                    p.set("budget1", (long long)r.pick<long long>({256, 1024, 8192}));
            }
            if (fb && r.chance(1, 3))
                p.set("dynmax0", 1); // the default allocator's max_node_size() shrinks while it is used
            if (comp.find("pmr") != std::string::npos)
            {
                p.set("maxnode0", (long long)r.pick<long long>({16, 64, 100, 4096}));
                if (r.chance(1, 3))
                    p.set("dynmax0", 1);
            }
            unsigned fault_pct = r.chance(1, 3) ? r.pick<unsigned>({5, 15}) : 0;
            std::size_t live   = 0, target = r.range(1, 12);
            for (std::size_t i = 0; i < len; ++i)
            {
                if (r.chance(1, 10))
                    target = r.range(0, 16);
                bool grow = live < target ? r.chance(3, 4) : r.chance(1, 4);
                if (r.chance(1, profile == "C12W" ? 6 : 30))
                    p.add("mvw", {(long long)r.below(7), (long long)r.below(300), (long long)r.below(100)});
                else if (r.chance(1, 25))
                    p.add("mx", {});
                else if (profile == "C08" && r.chance(1, 12))
                    p.add("tdfw", {(long long)r.below(300), (long long)r.below(12), (long long)r.below(5)});
                else if (grow)
                {
                    // sizes around thresholds / max node sizes / big
                    long long size;
                    switch (r.below(5))
                    {
                    case 0:
                        size = th1 + (long long)r.below(3) - 2;
                        break;
                    case 1:
                        size = p.num("th2") + (long long)r.below(3) - 2;
                        break;
                    case 2:
                        size = (long long)r.size_biased(0, 300);
                        break;
                    case 3:
                        size = (long long)r.size_biased(0, 70000);
                        break;
                    default:
                        size = (long long)r.below(40);
                    }
                    if (size < 0)
                        size = 0;
                    p.add("al", {(long long)r.below(2), (long long)r.below(2), (long long)r.size_biased(0, 19), size,
                                 (long long)r.pick({0, 0, 1, 2, 3, 3, 4, 4, 5, 6})},
                          fault_pct && r.below(100) < fault_pct ? int(r.range(1, 2)) : 0);
                    ++live;
                }
                else
                {
                    p.add("fr", {r.chance(1, 3) ? (long long)(live ? live - 1 : 0) : (long long)r.below(1000)});
                    if (live)
                        --live;
                }
            }
        }
        else if (profile == "C20" || profile == "C09S")
        {
            p.set("mode", "smart");
            p.set("pool_node", (long long)r.pick<long long>({128, 160, 256}));
            p.set("pool_block", (long long)r.pick<long long>({2048, 4096, 16384}));
            p.set("stack_block", (long long)r.pick<long long>({512, 2048, 8192}));
            if (profile == "C20" && seed % 64 == 0)
                p.add("sweep", {});
            for (std::size_t i = 0; i < len; ++i)
            {
                switch (r.below(8))
                {
                case 0:
                case 1:
                    p.add("drop", {(long long)r.below(100)});
                    break;
                case 2:
                    p.add("base", {(long long)r.below(2), (long long)r.below(2)});
                    break;
                case 3:
                    if (r.chance(1, 2))
                        p.add("mkx", {(long long)r.below(10), (long long)r.below(17), (long long)r.below(20)});
                    else
                    p.add("dl", {(long long)r.below(3), (long long)r.below(4), (long long)r.below(9)});
                    break;
                default:
                    p.add("mk", {(long long)r.below(3), (long long)r.below(3), (long long)r.below(5),
                                 (long long)r.below(16), (long long)r.below(18)});
                }
            }
        }
        else if (profile == "C11" || profile == "C20J")
        {
            p.set("mode", "joint");
            for (std::size_t i = 0; i < len; ++i)
            {
                switch (r.below(10))
                {
                case 0:
                    p.add("clone", {(long long)r.below(100), profile == "C20J" ? (long long)r.below(30) : 0,
                                    (long long)r.below(2)});
                    break;
                case 1:
                    p.add("mvj", {(long long)r.below(100),
                                  (profile == "C20J" || r.chance(1, 3)) && r.chance(1, 2) ? (long long)r.below(30) : 0});
                    break;
                case 2:
                    p.add(r.chance(1, 2) ? "swapj" : "asj", {(long long)r.below(100), (long long)r.below(100)});
                    break;
                case 3:
                case 4:
                    p.add("dropj", {(long long)r.below(100), (long long)r.below(2)});
                    break;
                case 6:
                    if (r.chance(1, 2))
                        p.add("sj", {(long long)r.below(9), (long long)r.below(9), (long long)r.below(5),
                                     r.chance(1, 2) ? 0 : (long long)r.below(200)});
                    else
                    p.add("jvm", {(long long)r.below(100), (long long)r.below(2)});
                    break;
                case 5:
                    p.add("jv", {(long long)r.below(12), (long long)r.below(40),
                                 r.pick<long long>({-40, -1, 0, 0, 16, 17, 64, 200}),
                                 r.chance(1, 2) ? (long long)r.range(1, 3) : 0});
                    break;
                default:
                    p.add("mkj", {(long long)r.below(3), (long long)r.below(4), (long long)r.below(9),
                                  (long long)r.below(9), (long long)r.below(5),
                                  r.chance(1, 3) ? -(long long)r.range(1, 2000) : r.pick<long long>({0, 0, 0, 1, 12, 100}),
                                  (profile == "C20J" || r.chance(1, 4)) ? (long long)r.below(30) : 0,
                                  (long long)r.below(2), r.chance(1, 5) ? 1 : r.chance(1, 5) ? 2 : 0});
                }
            }
        }
        else if (profile == "C09D")
        {
            p.set("mode", "deep");
            p.set("variant", (long long)r.below(6)); // 0,4: pool  1,3: stack  2,5: tracked_block_allocator
            p.set("node_size", (long long)r.pick<long long>({8, 16, 32, 48, 100}));
            p.set("block_size", (long long)r.pick<long long>({256, 512, 1024, 2000}));
            for (std::size_t i = 0; i < len; ++i)
            {
                switch (r.below(12))
                {
                case 0:
                    p.add("mk", {(long long)r.below(2)});
                    break;
                case 1:
                    p.add("mv", {(long long)r.below(2), (long long)r.below(2)});
                    break;
                case 2:
                    p.add("mva", {(long long)r.below(2), (long long)r.below(2)});
                    break;
                case 3:
                    p.add(r.chance(1, 3) ? "ds" : "shrink", {(long long)r.below(2)});
                    break;
                case 4:
                case 5:
                case 6:
                    p.add("fr", {0, (long long)r.below(1000)});
                    break;
                default:
                    p.add("al", {(long long)r.below(2), (long long)r.below(4000)});
                }
            }
        }
        else if (profile == "C10")
        {
            p.set("mode", "cont");
            std::vector<std::string> names;
            for (auto& kv : cont_registry())
                names.push_back(kv.first);
            p.set("cont", names[r.below(names.size())]);
            p.set("end", (long long)r.below(4));
            p.set("pmr_max_node", (long long)r.pick<long long>({16, 24, 64, 100, 4096}));
            p.set("fb_budget", (long long)r.pick<long long>({0, 64, 256, 1024, 4096}));
            unsigned fault_pct = r.chance(1, 3) ? r.pick<unsigned>({3, 10}) : 0;
            static const char* kinds[] = {"ins", "ins", "ins", "ins", "era", "era", "clr", "cpa", "mva",
                                          "swp", "cpc", "mvc", "cpx", "spl", "spl", "rsv"};
            for (std::size_t i = 0; i < len; ++i)
            {
                auto k = kinds[r.below(sizeof kinds / sizeof *kinds)];
                p.add(k, {(long long)r.below(4), (long long)r.below(1000), (long long)r.below(1000)},
                      fault_pct && r.below(100) < fault_pct ? int(r.range(1, 3)) : 0);
            }
        }
        return p;
    }
} // namespace cs
