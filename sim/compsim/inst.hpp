// Instrumented element type: counts constructions/destructions, can throw from the k-th construction since
// arming, and notices double destruction / destruction of something never constructed.
#pragma once
#include <cstddef>
#include <map>
#include <set>
#include <string>

namespace cs
{
    struct Injected
    {
        int id;
    };

    struct InstCtl
    {
        long            constructions = 0; // since arming
        long            throw_at      = 0; // 0: never
        int             next_id       = 1;
        int             thrown_id     = 0;
        std::map<const void*, int> alive; // address -> id the element got at its construction
        std::string     problem;
        long            total_constructed = 0, total_destroyed = 0;
        void            arm(long k)
        {
            constructions = 0;
            throw_at      = k;
            thrown_id     = 0;
        }
        void reset()
        {
            *this = InstCtl();
        }
        void born(const void* p, int& id)
        {
            ++constructions;
            id = next_id++;
            if (throw_at && constructions == throw_at)
            {
                thrown_id = id;
                throw Injected{id};
            }
            if (!alive.insert({p, id}).second && problem.empty())
                problem = "an element was constructed on top of a live element";
            ++total_constructed;
        }
        // a construction that cannot fail (a noexcept constructor): registered, not counted for fault injection
        void born_quiet(const void* p, int& id) noexcept
        {
            id = next_id++;
            if (!alive.insert({p, id}).second && problem.empty())
                problem = "an element was constructed on top of a live element";
            ++total_constructed;
        }
        void died(const void* p, int id)
        {
            auto it = alive.find(p);
            if (it == alive.end())
            {
                if (problem.empty())
                    problem = "an element was destroyed that is not alive (never constructed, or destroyed twice)";
            }
            else
            {
                if (it->second != id && problem.empty())
                    problem = "an element's memory was overwritten before it was destroyed (its destructor saw "
                              "other contents than its constructor left)";
                alive.erase(it);
            }
            ++total_destroyed;
        }
    };
    inline InstCtl& ctl()
    {
        static InstCtl c;
        return c;
    }

    template <std::size_t Pad, std::size_t Align>
    struct alignas(Align) Inst
    {
        int           id;
        int           value;
        unsigned char pad[Pad];
        Inst() : value(0)
        {
            ctl().born(this, id);
        }
        explicit Inst(int v) : value(v)
        {
            ctl().born(this, id);
        }
        Inst(const Inst& o) : value(o.value)
        {
            ctl().born(this, id);
        }
        Inst(Inst&& o) : value(o.value)
        {
            ctl().born(this, id);
        }
        Inst& operator=(const Inst& o)
        {
            value = o.value;
            return *this;
        }
        ~Inst()
        {
            ctl().died(this, id);
        }
        friend bool operator==(const Inst& a, const Inst& b)
        {
            return a.value == b.value;
        }
        friend bool operator<(const Inst& a, const Inst& b)
        {
            return a.value < b.value;
        }
    };

    // like Inst, but its default constructor is noexcept while the constructor from a value can fail
    // (is_nothrow_default_constructible says nothing about the constructor a helper really calls)
    template <std::size_t Pad, std::size_t Align>
    struct alignas(Align) InstN
    {
        int           id;
        int           value;
        unsigned char pad[Pad];
        InstN() noexcept : value(0)
        {
            ctl().born_quiet(this, id);
        }
        explicit InstN(int v) : value(v)
        {
            ctl().born(this, id);
        }
        InstN(const InstN& o) : value(o.value)
        {
            ctl().born(this, id);
        }
        // (is_nothrow_move_constructible says nothing about a copy from an lvalue either)
        InstN(InstN&& o) noexcept : value(o.value)
        {
            ctl().born_quiet(this, id);
        }
        ~InstN()
        {
            ctl().died(this, id);
        }
    };
} // namespace cs
