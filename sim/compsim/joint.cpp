// compsim "joint" mode (C11, joint part of C20): joint_ptr / joint_array / joint_allocator over a logging leaf.
#include "modes.hpp"
#include "inst.hpp"

#include <functional>
#include <memory>
#include <vector>

#include <foonathan/memory/container.hpp>
#include <foonathan/memory/joint_allocator.hpp>

using namespace sim;

namespace cs
{
    namespace
    {
        enum Form
        {
            F_SIZE,
            F_SIZE_VALUE,
            F_ILIST,
            F_RANGE,
            F_RETRY,   // the type's constructor builds one more joint_array in its body, catches a failure of an
                       // element constructor there and tries again: the failed attempt must have given its joint
                       // memory back
            F_BYVALUE, // like F_SIZE_VALUE, the first value is taken by value: its copy is made before the
                       // joint_type base exists (a failure there finds the block without a joint stack)
            FORMS
        };

        struct Args
        {
            std::size_t n[3];
            int         form;
            int         base; // element values base+i
        };

        // Because joint_array cannot be returned by value, each constructor form gets its own joint type
        // constructor via tag dispatch.
        // Over != 0: the joint type itself is over-aligned (a direct member with that alignment)
        template <class E1, class E2, class E3, std::size_t Over = 0>
        struct JT : fm::joint_type<JT<E1, E2, E3, Over>>
        {
            using base = fm::joint_type<JT<E1, E2, E3, Over>>;
            alignas(Over ? Over : alignof(int)) unsigned char over_[Over ? Over : 1] = {};
            struct size_tag
            {
            };
            struct value_tag
            {
            };
            struct ilist_tag
            {
            };
            struct range_tag
            {
            };
            struct byvalue_tag
            {
            };
            struct retry_tag
            {
            };
            int                 value;
            fm::joint_array<E1> a;
            fm::joint_array<E2> b;
            fm::joint_array<E3> c;
            // (F_RETRY) a fourth array, built in the constructor's body
            alignas(fm::joint_array<E2>) unsigned char extra_[sizeof(fm::joint_array<E2>)];
            bool has_extra_ = false;
            int  retries_   = 0;
            fm::joint_array<E2>& extra()
            {
                return *reinterpret_cast<fm::joint_array<E2>*>(extra_);
            }
            const fm::joint_array<E2>& extra() const
            {
                return *reinterpret_cast<const fm::joint_array<E2>*>(extra_);
            }
            ~JT()
            {
                if (has_extra_)
                    extra().~joint_array();
            }
            JT(fm::joint tag, retry_tag, const Args& x, const E1& v1, const E2& v2)
            : base(tag), value(x.base), a(x.n[0], v1, *this), b(std::size_t(0), *this), c(std::size_t(0), *this)
            {
                try
                {
                    ::new (static_cast<void*>(extra_)) fm::joint_array<E2>(x.n[1], v2, *this);
                }
                catch (const Injected&)
                {
                    ++retries_;
                    ctl().arm(0);
                    ::new (static_cast<void*>(extra_)) fm::joint_array<E2>(x.n[1], v2, *this);
                }
                has_extra_ = true;
            }

            JT(fm::joint tag, size_tag, const Args& x)
            : base(tag), value(x.base), a(x.n[0], *this), b(x.n[1], *this), c(x.n[2], *this)
            {
            }
            JT(fm::joint tag, value_tag, const Args& x, const E1& v1, const E2& v2, const E3& v3)
            : base(tag), value(x.base), a(x.n[0], v1, *this), b(x.n[1], v2, *this), c(x.n[2], v3, *this)
            {
            }
            JT(fm::joint tag, ilist_tag, const Args& x, const E1& v1, const E2& v2, const E3& v3)
            : base(tag), value(x.base), a({v1, v1, v1}, *this), b({v2, v2}, *this), c({v3}, *this)
            {
            }
            JT(fm::joint tag, range_tag, const Args& x, const std::vector<E1>& v1, const std::vector<E2>& v2,
               const std::vector<E3>& v3)
            : base(tag), value(x.base), a(v1.begin(), v1.end(), *this), b(v2.begin(), v2.end(), *this),
              c(v3.begin(), v3.end(), *this)
            {
            }
            JT(fm::joint tag, byvalue_tag, const Args& x, E1 v1, const E2& v2, const E3& v3)
            : base(tag), value(x.base), a(x.n[0], v1, *this), b(x.n[1], v2, *this), c(x.n[2], v3, *this)
            {
            }
            JT(fm::joint tag, const JT& o) : base(tag), value(o.value), a(o.a, *this), b(o.b, *this), c(o.c, *this)
            {
                if (o.has_extra_)
                {
                    ::new (static_cast<void*>(extra_)) fm::joint_array<E2>(o.extra(), *this);
                    has_extra_ = true;
                }
            }
            JT(fm::joint tag, JT&& o)
            : base(tag), value(o.value), a(std::move(o.a), *this), b(std::move(o.b), *this),
              c(std::move(o.c), *this)
            {
                if (o.has_extra_)
                {
                    ::new (static_cast<void*>(extra_)) fm::joint_array<E2>(std::move(o.extra()), *this);
                    has_extra_ = true;
                }
            }
        };

        // a joint type whose members are containers with joint_allocator
        template <class E>
        struct JV : fm::joint_type<JV<E>>
        {
            using base = fm::joint_type<JV<E>>;
            int                                 value;
            fm::vector<E, fm::joint_allocator>  vec;
            fm::string<fm::joint_allocator>     str;
            JV(fm::joint tag, std::size_t n, std::size_t chars, int b, std::size_t grow = 0)
            : base(tag), value(b), vec(fm::joint_allocator(*this)), str(fm::joint_allocator(*this))
            {
                vec.reserve(n);
                for (std::size_t i = 0; i < n; ++i)
                    vec.emplace_back(b + int(i));
                str.assign(chars, 'x');
                // the vector outgrows its buffer while the string's storage lies behind it: the old buffer is
                // released out of order (it is not the last piece of the joint memory)
                for (std::size_t i = 0; i < grow; ++i)
                    vec.emplace_back(b + int(n + i));
            }
            JV(fm::joint tag, const JV& o)
            : base(tag), value(o.value), vec(fm::joint_allocator(*this)), str(fm::joint_allocator(*this))
            {
                vec.reserve(o.vec.size());
                for (auto& e : o.vec)
                    vec.push_back(e);
                str.assign(o.str.begin(), o.str.end());
            }
            // "move with allocator": the containers must move into the joint memory of the new object
            JV(fm::joint tag, JV&& o)
            : base(tag), value(o.value), vec(std::move(o.vec), fm::joint_allocator(*this)),
              str(std::move(o.str), fm::joint_allocator(*this))
            {
            }
        };

        struct Handle
        {
            std::function<void()>              destroy;
            std::function<Handle(int)>         clone;       // clone_joint into a new block
            std::function<Handle()>            move_joint;  // move-with-allocator into a new object
            std::function<void()>              reset;
            std::function<bool(Handle&)>       same_type_swap; // swap with another handle of the same type
            std::function<void(Handle&)>       move_assign_from; // *this = std::move(other), same type
            std::function<std::vector<int>()>  contents;
            std::function<void()>              mutate;
            std::function<void(const char*)>   layout_check;
            long                               elements = 0;
            bool                               empty    = false;
            int                                type     = 0;
            int                                leaf     = 0; // which allocator object its block came from
            std::shared_ptr<int>               leafp;        // the same, shared with the closures
            std::shared_ptr<void>              ptr;
        };

        std::size_t align_up(std::size_t v, std::size_t a)
        {
            return (v + a - 1) / a * a;
        }

        struct Ctx
        {
            Env*                env;
            std::vector<Handle> hs;
            RunHash*            hash;
            std::uint64_t       cases = 0;
            long                given_up = 0; // elements of a source object that a move ended (as the source reports)
        };

        template <class T>
        void check_inside(const T& obj, const void* p, std::size_t bytes, std::size_t align, const char* what,
                          std::size_t additional, std::vector<std::pair<const char*, const char*>>& ranges)
        {
            if (bytes == 0)
                return;
            auto lo = reinterpret_cast<const char*>(&obj) + sizeof(T);
            auto hi = lo + additional;
            auto c  = static_cast<const char*>(p);
            if (c < lo || c + bytes > hi)
                violate("C11", "outside_block", "%s: member storage [%+td, %+td) lies outside the %zu bytes after "
                                                "the object",
                        what, c - lo, c + bytes - lo, additional);
            if (reinterpret_cast<std::uintptr_t>(c) % align)
                violate("C11", "misaligned", "%s: member storage not aligned to %zu", what, align);
            for (auto& r : ranges)
                if (c < r.second && r.first < c + bytes)
                    violate("C11", "overlap", "%s: member storages overlap", what);
            ranges.push_back({c, c + bytes});
        }

        template <class JTy>
        Handle wrap_jt(Ctx& c, std::shared_ptr<fm::joint_ptr<JTy, LeafA>> sp, std::size_t additional, int type,
                       int leaf);

        template <class JTy>
        long count_elems(const JTy& o)
        {
            return long(o.a.size() + o.b.size() + o.c.size() + (o.has_extra_ ? o.extra().size() : 0));
        }

        template <class JTy>
        Handle wrap_jt(Ctx& c, std::shared_ptr<fm::joint_ptr<JTy, LeafA>> sp, std::size_t additional, int type,
                       int leaf)
        {
            Handle h;
            h.type     = type;
            h.leaf     = leaf;
            h.leafp    = std::make_shared<int>(leaf);
            auto leafp = h.leafp;
            h.ptr      = sp;
            h.elements = *sp ? count_elems(**sp) : 0;
            h.empty    = !*sp;
            h.destroy  = [sp] { sp->reset(); };
            h.reset    = [sp] { *sp = nullptr; }; // ("same as reset()")
            h.contents = [sp]
            {
                std::vector<int> v;
                if (!*sp)
                    return v;
                v.push_back((*sp)->value);
                for (auto& e : (*sp)->a)
                    v.push_back(e.value);
                for (auto& e : (*sp)->b)
                    v.push_back(e.value);
                for (auto& e : (*sp)->c)
                    v.push_back(e.value);
                if ((*sp)->has_extra_)
                    for (auto& e : (*sp)->extra())
                        v.push_back(e.value);
                return v;
            };
            h.mutate = [sp]
            {
                if (!*sp)
                    return;
                (*sp)->value += 1000;
                for (auto& e : (*sp)->a)
                    e.value += 1000;
                for (auto& e : (*sp)->b)
                    e.value += 1000;
                for (auto& e : (*sp)->c)
                    e.value += 1000;
            };
            h.layout_check = [sp](const char* what)
            {
                if (!*sp)
                    return;
                auto&                                              o = **sp;
                // (read from the object itself: a swap exchanges the objects behind the handles)
                auto additional = fm::detail::get_stack(o).capacity(fm::detail::get_memory(o));
                std::vector<std::pair<const char*, const char*>>   ranges;
                using A = typename std::remove_reference<decltype(o.a[0])>::type;
                using B = typename std::remove_reference<decltype(o.b[0])>::type;
                using C = typename std::remove_reference<decltype(o.c[0])>::type;
                check_inside(o, o.a.data(), o.a.size() * sizeof(A), alignof(A), what, additional, ranges);
                check_inside(o, o.b.data(), o.b.size() * sizeof(B), alignof(B), what, additional, ranges);
                check_inside(o, o.c.data(), o.c.size() * sizeof(C), alignof(C), what, additional, ranges);
            };
            auto env = c.env;
            auto ctx = &c;
            h.clone  = [sp, env, ctx, type](int to_leaf) -> Handle
            {
                auto used = fm::detail::get_stack(**sp).capacity_used(fm::detail::get_memory(**sp));
                auto np = std::make_shared<fm::joint_ptr<JTy, LeafA>>(fm::clone_joint(env->la[to_leaf], **sp));
                return wrap_jt<JTy>(*ctx, np, used, type, to_leaf);
            };
            h.move_joint = [sp, env, ctx, type, leafp]() -> Handle
            {
                auto additional = fm::detail::get_stack(**sp).capacity(fm::detail::get_memory(**sp));
                int  to_leaf    = 1 - *leafp; // into a block of the other allocator object
                auto np = std::make_shared<fm::joint_ptr<JTy, LeafA>>(env->la[to_leaf], fm::joint_size(additional),
                                                                      std::move(**sp));
                return wrap_jt<JTy>(*ctx, np, additional, type, to_leaf);
            };
            h.same_type_swap = [sp](Handle& other) -> bool
            {
                auto op = std::static_pointer_cast<fm::joint_ptr<JTy, LeafA>>(other.ptr);
                swap(*sp, *op);
                return true;
            };
            h.move_assign_from = [sp](Handle& other)
            {
                auto op = std::static_pointer_cast<fm::joint_ptr<JTy, LeafA>>(other.ptr);
                *sp     = std::move(*op);
            };
            return h;
        }

        // guarded creation: C20 bookkeeping + C11 "does not fit -> out_of_fixed_memory"
        template <class F>
        bool guarded(Ctx& c, const char* what, long elements, long k, bool fits, F make, long temps = 0,
                     bool caught_inside = false)
        {
            // temps: constructions of temporaries that precede the elements (gone again when make() returns)
            const long constructions = elements + temps;
            auto& ct     = ctl();
            auto  alive0 = ct.alive.size();
            auto  live0  = c.env->leaf[0].live.size() + c.env->leaf[1].live.size();
            c.env->log.begin_op(0);
            c.given_up = 0;
            ct.arm(k);
            bool        injected = false, oom = false, ok = false;
            std::string other;
            try
            {
                make();
                ok = true;
            }
            catch (const Injected& e)
            {
                injected = true;
                if (e.id != ct.thrown_id)
                    other = "a different exception object arrived";
            }
            catch (const fm::out_of_fixed_memory&)
            {
                oom = true;
            }
            catch (const std::bad_alloc&)
            {
                other = "bad_alloc that is not out_of_fixed_memory";
            }
            catch (...)
            {
                other = "unknown exception";
            }
            ct.arm(0);
            ++c.cases;
            c.hash->add(0x61 + (ok ? 1 : 0) + (injected ? 2 : 0) + (oom ? 4 : 0));
            if (!other.empty())
                violate("C20,C11", "exception_changed", "%s: %s", what, other.c_str());
            if (!ct.problem.empty())
                violate("C20", "element_lifecycle", "%s: %s", what, ct.problem.c_str());
            if (!c.env->log.problem.empty())
                violate("C11,C20,C09", "release_mismatch", "%s: %s", what, c.env->log.problem.c_str());
            if (!ok)
            {
                if (ct.alive.size() < alive0)
                    violate("C20,C11", "foreign_elements_destroyed", "%s failed and destroyed %ld element(s) that it "
                                                                     "had not constructed (elements of the source "
                                                                     "object, which still owns them)",
                            what, long(alive0) - long(ct.alive.size()));
                if (ct.alive.size() != alive0)
                    violate("C20", "elements_leaked", "%s: %ld element(s) constructed before the failure were not "
                                                      "destroyed",
                            what, long(ct.alive.size()) - long(alive0));
                if (c.env->leaf[0].live.size() + c.env->leaf[1].live.size() != live0)
                    violate("C20,C11", "memory_leaked", "%s: the block obtained for the object was not given back",
                            what);
                if (oom && fits && (caught_inside || !(k >= 1 && k <= constructions)))
                    violate(caught_inside ? "C20,C11,C03" : "C11,C03", "spurious_out_of_memory",
                            "%s: out_of_fixed_memory although the additional size is sufficient%s", what,
                            caught_inside ? " (a failed joint_array construction did not give its joint memory back)" :
                                            "");
                if (injected)
                    stats().hit("fault.constructor_failure_fired");
                if (oom)
                    stats().hit("reach.joint_out_of_fixed_memory");
                return false;
            }
            if (!fits)
                violate("C11,C03", "overrun_accepted", "%s: the members need more than the additional size, yet "
                                                   "creation succeeded",
                        what);
            if (k >= 1 && k <= constructions && !caught_inside)
                violate("C20", "exception_swallowed", "%s: failure injected at construction %ld of %ld, no "
                                                      "exception arrived",
                        what, k, elements);
            // (given_up: elements of the source that a move ended, as the source itself reports)
            if (long(ct.alive.size()) - long(alive0) != elements - c.given_up)
                violate("C20", "element_count", "%s: %ld element(s) alive after success, expected %ld", what,
                        long(ct.alive.size()) - long(alive0), elements - c.given_up);
            if (c.env->leaf[0].live.size() + c.env->leaf[1].live.size() != live0 + 1)
                violate("C11", "block_count", "%s: creation made %ld leaf allocation(s), expected exactly one", what,
                        long(c.env->leaf[0].live.size() + c.env->leaf[1].live.size()) - long(live0));
            return true;
        }

        template <class E1, class E2, class E3, std::size_t Over = 0>
        void make_jt(Ctx& c, int type, int form, std::size_t n1, std::size_t n2, std::size_t n3, long extra,
                     long k, int base, int leaf)
        {
            using T = JT<E1, E2, E3, Over>;
            Args x{{n1, n2, n3}, form, base};
            if (form == F_ILIST)
            {
                x.n[0] = 3;
                x.n[1] = 2;
                x.n[2] = 1;
            }
            if (form == F_RETRY)
                x.n[2] = 0; // (a and the array built in the constructor's body)
            // exact need (object start is max_alignment aligned; the leaf serves >= 16 byte aligned memory)
            std::size_t pos = sizeof(T);
            if (x.n[0])
                pos = align_up(pos, alignof(E1)) + x.n[0] * sizeof(E1);
            if (x.n[1])
                pos = align_up(pos, alignof(E2)) + x.n[1] * sizeof(E2);
            if (x.n[2])
                pos = align_up(pos, alignof(E3)) + x.n[2] * sizeof(E3);
            std::size_t need = pos - sizeof(T);
            // extra >= 0: that much more than needed; extra < 0: a shortfall anywhere in 1..need (so that the
            // first element that does not fit lies partly or completely behind the block, at any position)
            long add = long(need) + extra;
            if (extra < 0)
                add = need ? long(need) - 1 - long(std::size_t(-extra - 1) % need) : 0;
            if (add < 0)
                add = 0;
            bool fits     = std::size_t(add) >= need;
            long elements = long(x.n[0] + x.n[1] + x.n[2]);
            // temporaries (values to copy from) are built before arming
            ctl().arm(0);
            E1              v1(base);
            E2              v2(base + 1);
            E3              v3(base + 2);
            std::vector<E1> r1;
            std::vector<E2> r2;
            std::vector<E3> r3;
            if (form == F_RANGE)
            {
                r1.reserve(x.n[0]);
                r2.reserve(x.n[1]);
                r3.reserve(x.n[2]);
                for (std::size_t i = 0; i < x.n[0]; ++i)
                    r1.emplace_back(base + int(i));
                for (std::size_t i = 0; i < x.n[1]; ++i)
                    r2.emplace_back(base + 100 + int(i));
                for (std::size_t i = 0; i < x.n[2]; ++i)
                    r3.emplace_back(base + 200 + int(i));
            }
            // the initializer list form copies its arguments into the list first: those copies are constructions
            // of their own, so constructor failures are only injected in the other forms
            if (form == F_ILIST)
                k = 0;
            std::shared_ptr<fm::joint_ptr<T, LeafA>> sp;
            auto                                     temp_alive = ctl().alive.size();
            (void)temp_alive;
            char what[160];
            std::snprintf(what, sizeof what, "allocate_joint (form %d, sizes %zu/%zu/%zu, additional %ld of %zu "
                                             "needed, failure at %ld)",
                          form, x.n[0], x.n[1], x.n[2], add, need, k);
            bool ok = guarded(c, what, elements, k, fits,
                              [&]
                              {
                                  auto& al = c.env->la[leaf];
                                  auto  js = fm::joint_size(std::size_t(add));
                                  switch (form)
                                  {
                                  case F_SIZE:
                                      sp = std::make_shared<fm::joint_ptr<T, LeafA>>(
                                          fm::allocate_joint<T>(al, js, typename T::size_tag{}, x));
                                      break;
                                  case F_SIZE_VALUE:
                                      sp = std::make_shared<fm::joint_ptr<T, LeafA>>(
                                          fm::allocate_joint<T>(al, js, typename T::value_tag{}, x, v1, v2, v3));
                                      break;
                                  case F_ILIST:
                                      sp = std::make_shared<fm::joint_ptr<T, LeafA>>(
                                          fm::allocate_joint<T>(al, js, typename T::ilist_tag{}, x, v1, v2, v3));
                                      break;
                                  case F_BYVALUE:
                                      sp = std::make_shared<fm::joint_ptr<T, LeafA>>(
                                          fm::allocate_joint<T>(al, js, typename T::byvalue_tag{}, x, v1, v2, v3));
                                      break;
                                  case F_RETRY:
                                      sp = std::make_shared<fm::joint_ptr<T, LeafA>>(
                                          fm::allocate_joint<T>(al, js, typename T::retry_tag{}, x, v1, v2));
                                      break;
                                  default:
                                      sp = std::make_shared<fm::joint_ptr<T, LeafA>>(
                                          fm::allocate_joint<T>(al, js, typename T::range_tag{}, x, r1, r2, r3));
                                  }
                              },
                              form == F_BYVALUE ? 1 : 0,
                              // a failure among the elements of the array built in the body is caught in there
                              form == F_RETRY && k > long(x.n[0]) && k <= long(x.n[0] + x.n[1]));
            if (ok && form == F_RETRY && k > long(x.n[0]) && k <= long(x.n[0] + x.n[1]))
                stats().hit("reach.joint_array_retried_inside_constructor");
            if (form == F_BYVALUE && k == 1)
                stats().hit("reach.joint_failure_before_base");
            if (!ok)
                return;
            // the single upstream request: sizeof(T) + additional at alignof(T)
            auto& calls = c.env->log.calls;
            auto& last  = calls.back();
            if (last.op != 'n' || last.size != sizeof(T) + std::size_t(add) || last.align != alignof(T))
                violate("C11", "block_request", "joint_ptr asked the allocator for %c(size %zu, align %zu), "
                                                "expected node(size %zu, align %zu)",
                        last.op, last.size, last.align, sizeof(T) + std::size_t(add), alignof(T));
            auto h = wrap_jt<T>(c, sp, std::size_t(add), type, leaf);
            h.layout_check(what);
            c.hs.push_back(h);
        }

        void check_destroy(Ctx& c, Handle h, const char* what)
        {
            auto& ct     = ctl();
            auto  alive0 = ct.alive.size();
            auto  live0  = c.env->leaf[h.leaf].live.size();
            auto  other0 = c.env->leaf[1 - h.leaf].live.size();
            c.env->log.begin_op(0);
            h.destroy();
            if (h.empty)
                return;
            if (c.env->leaf[1 - h.leaf].live.size() != other0 && c.env->log.problem.empty())
                violate("C11", "wrong_allocator", "%s released a block of the allocator object the joint_ptr does "
                                                  "not belong to",
                        what);
            if (long(alive0 - ct.alive.size()) != h.elements)
                violate("C11,C20", "element_count", "%s destroyed %ld element(s), the object held %ld", what,
                        long(alive0 - ct.alive.size()), h.elements);
            if (!ct.problem.empty())
                violate("C11,C20", "element_lifecycle", "%s: %s", what, ct.problem.c_str());
            if (!c.env->log.problem.empty())
                violate("C11,C09", "release_mismatch", "%s: %s", what, c.env->log.problem.c_str());
            if (c.env->leaf[h.leaf].live.size() + 1 != live0)
                violate("C11", "block_count", "%s released %ld block(s) of its allocator, expected exactly one", what,
                        long(live0) - long(c.env->leaf[h.leaf].live.size()));
        }
    } // namespace

    void run_joint(const Plan& plan, RunResult& res, RunHash& hash)
    {
        static Env env;
        env.reset();
        ctl().reset();
        Ctx c;
        c.env  = &env;
        c.hash = &hash;
        auto& heap = SimHeap::get();
        int   step = -1;
        using EA   = Inst<4, 4>;    // 12 bytes, align 4
        using EB   = Inst<1, 1>;    // odd size, align 4 because of the ints
        using EC   = Inst<40, 16>;  // align 16
        using ED   = Inst<20, 8>;   // align 8
        try
        {
            heap.begin_op(0);
            for (std::size_t oi = 0; oi < plan.ops.size(); ++oi)
            {
                step          = int(oi);
                const auto& o = plan.ops[oi];
                if (o.kind == "mkj")
                {
                    // mkj type form n1 n2 n3 extra k
                    int         type = int(o.arg(0)) % 3, form = int(o.arg(1)) % 4;
                    std::size_t n1 = std::size_t(o.arg(2)) % 9, n2 = std::size_t(o.arg(3)) % 9,
                                n3   = std::size_t(o.arg(4)) % 5;
                    long        extra = o.arg(5);
                    long        tot   = long(n1 + n2 + n3);
                    long        k     = tot ? o.arg(6) % (tot + 2) : 0;
                    if (o.arg(8) & 1)
                    {
                        form = F_BYVALUE;
                        k    = o.arg(6) % (tot + 3);
                    }
                    else if (o.arg(8) & 2)
                    {
                        form = F_RETRY;
                        n3   = 0;
                        tot  = long(n1 + n2);
                        k    = tot ? o.arg(6) % (tot + 2) : 0;
                    }
                    int         base  = int(oi) * 10;
                    int         leaf  = int(o.arg(7)) & 1;
                    switch (type)
                    {
                    case 0:
                        make_jt<EA, EB, EC>(c, 0, form, n1, n2, n3, extra, k, base, leaf);
                        break;
                    case 1:
                        make_jt<EC, EA, ED>(c, 1, form, n1, n2, n3, extra, k, base, leaf);
                        break;
                    default:
                        make_jt<ED, EC, EB, 32>(c, 2, form, n1, n2, n3, extra, k, base, leaf); // over-aligned type
                    }
                }
                else if (o.kind == "clone" && !c.hs.empty())
                {
                    auto& h = c.hs[std::size_t(o.arg(0)) % c.hs.size()];
                    if (h.empty || h.type == 9)
                        continue;
                    auto   before = h.contents();
                    long   k      = h.elements ? o.arg(1) % (h.elements + 2) : 0;
                    Handle nh;
                    int    to = int(o.arg(2)) & 1;
                    bool   ok = guarded(c, "clone_joint", h.elements, k, true, [&] { nh = h.clone(to); });
                    if (h.contents() != before)
                        violate("C11", "clone_changed_original", "clone_joint changed the original's contents");
                    if (!ok)
                        continue;
                    if (nh.contents() != before)
                        violate("C11", "clone_differs", "clone_joint produced different contents");
                    nh.layout_check("clone_joint");
                    nh.mutate();
                    if (h.contents() != before)
                        violate("C11", "clone_not_independent", "mutating the clone changed the original");
                    stats().hit("reach.joint_clone");
                    c.hs.push_back(nh);
                }
                else if (o.kind == "mvj" && !c.hs.empty())
                {
                    auto i = std::size_t(o.arg(0)) % c.hs.size();
                    auto h = c.hs[i];
                    if (h.empty || h.type == 9)
                        continue;
                    auto   before = h.contents();
                    Handle nh;
                    // moved elements are new constructions; the source keeps what it says it keeps (the library's
                    // arrays keep their moved-from elements until the source is reset). An element's move
                    // constructor may throw (drawn): the new object is rolled back, the source still owns its own.
                    long k     = h.elements ? o.arg(1) % (h.elements + 2) : 0;
                    long given = 0;
                    bool ok    = guarded(c, "move with joint", h.elements, k, true,
                                         [&]
                                         {
                                             nh    = h.move_joint();
                                             given = c.given_up = long(before.size()) - long(h.contents().size());
                                         });
                    if (k)
                        stats().hit(ok ? "reach.joint_move_failure_drawn_not_reached" : "reach.joint_move_failed_at_an_element");
                    if (!ok)
                        continue;
                    c.hs[i].elements -= given;
                    if (nh.contents() != before)
                        violate("C11", "move_differs", "moving into a new joint object changed the contents");
                    nh.layout_check("move with joint");
                    c.hs.push_back(nh);
                    stats().hit("reach.joint_move");
                }
                else if (o.kind == "swapj" && c.hs.size() >= 2)
                {
                    auto i = std::size_t(o.arg(0)) % c.hs.size(), j = std::size_t(o.arg(1)) % c.hs.size();
                    if (i == j || c.hs[i].type != c.hs[j].type || c.hs[i].type == 9)
                        continue;
                    auto a = c.hs[i].contents(), b = c.hs[j].contents();
                    c.hs[i].same_type_swap(c.hs[j]);
                    std::swap(c.hs[i].elements, c.hs[j].elements);
                    std::swap(c.hs[i].empty, c.hs[j].empty);
                    std::swap(c.hs[i].leaf, c.hs[j].leaf); // the allocator reference travels with the object
                    std::swap(*c.hs[i].leafp, *c.hs[j].leafp);
                    std::swap(c.hs[i].layout_check, c.hs[j].layout_check);
                    if (c.hs[i].contents() != b || c.hs[j].contents() != a)
                        violate("C11", "swap_wrong", "swap of two joint_ptrs did not exchange the objects");
                    stats().hit("reach.joint_swap");
                }
                else if (o.kind == "asj" && c.hs.size() >= 2)
                {
                    // move assignment of joint_ptrs (possibly of different allocator objects): the target's object
                    // goes back to the target's old allocator, the target takes over object and allocator
                    auto i = std::size_t(o.arg(0)) % c.hs.size(), j = std::size_t(o.arg(1)) % c.hs.size();
                    if (i == j || c.hs[i].type != c.hs[j].type || c.hs[i].type == 9)
                        continue;
                    auto& T = c.hs[i];
                    auto& S = c.hs[j];
                    auto  src     = S.contents();
                    auto  alive0  = ctl().alive.size();
                    auto  live_t0 = env.leaf[T.leaf].live.size();
                    auto  live_o0 = env.leaf[1 - T.leaf].live.size();
                    env.log.begin_op(0);
                    T.move_assign_from(S);
                    ++c.cases;
                    if (!T.empty)
                    {
                        if (long(alive0 - ctl().alive.size()) != T.elements)
                            violate("C11,C20", "element_count", "move assignment destroyed %ld element(s) of the "
                                                                "target's old object, it held %ld",
                                    long(alive0 - ctl().alive.size()), T.elements);
                        if (env.leaf[T.leaf].live.size() + 1 != live_t0 || env.leaf[1 - T.leaf].live.size() != live_o0)
                            violate("C11", "wrong_allocator", "move assignment did not give the target's old block "
                                                              "back to the allocator it came from");
                    }
                    if (!env.log.problem.empty())
                        violate("C11,C09", "release_mismatch", "move assignment of joint_ptrs: %s",
                                env.log.problem.c_str());
                    if (T.contents() != src)
                        violate("C11", "move_differs", "move assignment of joint_ptrs changed the contents");
                    if (!S.contents().empty())
                        violate("C11", "move_differs", "the source of a joint_ptr move assignment still owns an object");
                    T.elements = S.elements;
                    T.empty    = S.empty;
                    T.leaf     = S.leaf;
                    *T.leafp   = *S.leafp;
                    S.elements = 0;
                    S.empty    = true;
                    stats().hit("reach.joint_ptr_move_assigned");
                }
                else if (o.kind == "dropj" && !c.hs.empty())
                {
                    auto i = std::size_t(o.arg(0)) % c.hs.size();
                    auto h = c.hs[i];
                    c.hs.erase(c.hs.begin() + (long)i);
                    if (h.type == 9)
                        h.destroy();
                    else
                    {
                        bool by_assignment = o.arg(1) % 2 && h.reset;
                        if (by_assignment)
                            h.destroy = h.reset; // joint_ptr = nullptr
                        check_destroy(c, h, by_assignment ? "assignment of nullptr" : "reset()");
                    }
                }
                else if (o.kind == "sj")
                {
                    // a stateless allocator: the overloads taking the allocator by const reference / as a temporary
                    using T   = JT<EA, EB, EC>;
                    using SLJ = StatelessLeaf<2>;
                    SLJ::state() = &env.leaf[2];
                    std::size_t n1 = std::size_t(o.arg(0)) % 9, n2 = std::size_t(o.arg(1)) % 9,
                                n3 = std::size_t(o.arg(2)) % 5;
                    Args        x{{n1, n2, n3}, F_SIZE, int(oi) * 10};
                    std::size_t pos = sizeof(T);
                    if (n1)
                        pos = align_up(pos, alignof(EA)) + n1 * sizeof(EA);
                    if (n2)
                        pos = align_up(pos, alignof(EB)) + n2 * sizeof(EB);
                    if (n3)
                        pos = align_up(pos, alignof(EC)) + n3 * sizeof(EC);
                    std::size_t need = pos - sizeof(T), add = need + std::size_t(o.arg(3)) % 200;
                    auto        alive0 = ctl().alive.size();
                    env.log.begin_op(0);
                    const SLJ sl{};
                    {
                        auto p = fm::allocate_joint<T>(sl, fm::joint_size(add), typename T::size_tag{}, x);
                        ++c.cases;
                        auto& first = env.log.calls.back();
                        if (first.op != 'n' || first.size != sizeof(T) + add)
                            violate("C11", "block_request", "allocate_joint (allocator by const reference) asked for "
                                                            "%c(size %zu), expected node(size %zu)",
                                    first.op, first.size, sizeof(T) + add);
                        auto used = fm::detail::get_stack(*p).capacity_used(fm::detail::get_memory(*p));
                        try
                        {
                            auto q = fm::clone_joint(sl, *p); // const overload
                            auto& second = env.log.calls.back();
                            if (second.op != 'n' || second.size != sizeof(T) + used)
                                violate("C11", "block_request", "clone_joint (allocator by const reference) asked "
                                                                "for %c(size %zu), expected node(size %zu): what the "
                                                                "original uses",
                                        second.op, second.size, sizeof(T) + used);
                            if (q->a.size() != n1 || q->b.size() != n2 || q->c.size() != n3 || q->value != p->value)
                                violate("C11", "clone_differs", "clone_joint (const overload) produced other contents");
                            for (std::size_t i = 0; i < n1; ++i)
                                if (q->a[i].value != p->a[i].value)
                                    violate("C11", "clone_differs", "clone_joint (const overload): element differs");
                            auto q2 = fm::clone_joint(SLJ{}, *q); // temporary allocator
                            q2.reset();
                            q.reset();
                        }
                        catch (const fm::out_of_fixed_memory&)
                        {
                            violate("C11,C03", "spurious_out_of_memory", "clone_joint (allocator by const reference) of an "
                                                                     "object that uses %zu of %zu additional bytes "
                                                                     "threw out_of_fixed_memory",
                                    used, add);
                        }
                        p.reset();
                    }
                    if (!env.log.problem.empty())
                        violate("C11,C09", "release_mismatch", "joint objects on a stateless allocator: %s",
                                env.log.problem.c_str());
                    if (!env.leaf[2].live.empty() || ctl().alive.size() != alive0)
                        violate("C11,C20", "memory_leaked", "joint objects on a stateless allocator left memory or "
                                                            "elements behind");
                    stats().hit("reach.joint_const_allocator_overloads");
                }
                else if (o.kind == "jvm" && !c.hs.empty())
                {
                    // a joint object with containers is moved into a new joint object (other allocator object)
                    using T = JV<EA>;
                    std::vector<std::size_t> cand;
                    for (std::size_t q = 0; q < c.hs.size(); ++q)
                        if (c.hs[q].type == 9 && !c.hs[q].empty)
                            cand.push_back(q);
                    if (cand.empty())
                        continue;
                    auto i = cand[std::size_t(o.arg(0)) % cand.size()];
                    auto h = c.hs[i];
                    auto sp         = std::static_pointer_cast<fm::joint_ptr<T, LeafA>>(h.ptr);
                    auto before     = h.contents();
                    auto str_before = std::string((*sp)->str.begin(), (*sp)->str.end());
                    auto additional = fm::detail::get_stack(**sp).capacity(fm::detail::get_memory(**sp));
                    int  to         = int(o.arg(1)) & 1;
                    env.log.begin_op(0);
                    auto np = std::make_shared<fm::joint_ptr<T, LeafA>>(
                        fm::allocate_joint<T>(env.la[to], fm::joint_size(additional), std::move(**sp)));
                    ++c.cases;
                    auto& n2 = **np;
                    auto  lo = reinterpret_cast<const char*>(&n2) + sizeof(T), hi = lo + additional;
                    auto  vd = reinterpret_cast<const char*>(n2.vec.data());
                    if (n2.vec.capacity() && (vd < lo || vd + n2.vec.size() * sizeof(EA) > hi))
                        violate("C11,C10", "outside_block", "a vector moved into a new joint object (with its "
                                                            "joint_allocator) keeps its storage outside the new "
                                                            "object's joint memory");
                    if (n2.str.size() > 15 && (n2.str.data() < lo || n2.str.data() + n2.str.size() > hi))
                        violate("C11,C10", "outside_block", "a string moved into a new joint object keeps its "
                                                            "storage outside the new object's joint memory");
                    // the source goes away: the new object must be independent of it
                    c.hs.erase(c.hs.begin() + (long)i);
                    sp->reset();
                    std::vector<int> after;
                    for (auto& e : n2.vec)
                        after.push_back(e.value);
                    if (after != before || std::string(n2.str.begin(), n2.str.end()) != str_before)
                        violate("C11", "move_differs", "contents of the moved joint containers changed when the "
                                                       "source object was destroyed");
                    if (!env.log.problem.empty())
                        violate("C11,C09", "release_mismatch", "move of joint containers: %s",
                                env.log.problem.c_str());
                    Handle nh;
                    nh.ptr      = np;
                    nh.type     = 9;
                    nh.elements = long(after.size());
                    nh.destroy  = [np] { np->reset(); };
                    nh.contents = [np]
                    {
                        std::vector<int> v;
                        if (*np)
                            for (auto& e : (*np)->vec)
                                v.push_back(e.value);
                        return v;
                    };
                    nh.mutate       = [] {};
                    nh.layout_check = [](const char*) {};
                    nh.clone        = [](int) { return Handle(); };
                    c.hs.push_back(nh);
                    stats().hit("reach.joint_containers_moved");
                }
                else if (o.kind == "jv")
                {
                    // containers with joint_allocator: jv n chars extra grow
                    using T         = JV<EA>;
                    std::size_t n   = std::size_t(o.arg(0)) % 12, chars = std::size_t(o.arg(1)) % 40;
                    std::size_t grow = std::size_t(o.arg(3)) % 4;
                    if (grow)
                    {
                        // generous room: what is judged here is the contents after an out-of-order release
                        std::shared_ptr<fm::joint_ptr<T, LeafA>> gp;
                        auto alive0 = ctl().alive.size();
                        try
                        {
                            gp = std::make_shared<fm::joint_ptr<T, LeafA>>(fm::allocate_joint<T>(
                                env.la[0], fm::joint_size(4096), n, chars, int(oi), grow));
                        }
                        catch (const fm::out_of_fixed_memory&)
                        {
                            violate("C11,C03", "spurious_out_of_memory", "containers with joint_allocator in 4096 "
                                                                     "bytes of joint memory");
                        }
                        ++c.cases;
                        auto& g = **gp;
                        if (g.vec.size() != n + grow || g.str.size() != chars)
                            violate("C11", "contents_damaged", "sizes of the joint containers are wrong");
                        for (std::size_t i = 0; i < g.vec.size(); ++i)
                            if (g.vec[i].value != int(oi) + int(i))
                                violate("C11", "contents_damaged", "element %zu of the vector in joint memory was "
                                                                   "overwritten after the vector grew",
                                        i);
                        for (auto ch : g.str)
                            if (ch != 'x')
                                violate("C11", "contents_damaged", "the string in joint memory was overwritten when "
                                                                   "the vector released its old buffer");
                        // a further piece must not overlap what is alive
                        fm::joint_allocator ja(g);
                        void*               extra_piece = nullptr;
                        try
                        {
                            extra_piece = ja.allocate_node(16, 4);
                        }
                        catch (const fm::out_of_fixed_memory&)
                        {
                        }
                        if (extra_piece)
                        {
                            auto e  = static_cast<const char*>(extra_piece);
                            auto v0 = reinterpret_cast<const char*>(g.vec.data());
                            auto v1 = reinterpret_cast<const char*>(g.vec.data() + g.vec.capacity());
                            bool hits_vec = g.vec.capacity() && e < v1 && v0 < e + 16;
                            bool hits_str = chars > 15 && e < g.str.data() + g.str.capacity() + 1
                                            && g.str.data() < e + 16;
                            if (hits_vec || hits_str)
                                violate("C11", "overlap", "joint_allocator handed out memory that overlaps a live "
                                                          "container buffer after an out-of-order release");
                        }
                        gp->reset();
                        if (ctl().alive.size() != alive0)
                            violate("C11", "element_count", "joint object with grown vector: elements not destroyed");
                        stats().hit("reach.joint_out_of_order_release");
                        continue;
                    }
                    std::size_t need = 0;
                    if (n)
                        need = align_up(sizeof(T), alignof(EA)) - sizeof(T) + n * sizeof(EA);
                    if (chars > 15) // beyond the small string buffer
                        need += chars + 1;
                    long add = long(need) + o.arg(2);
                    if (add < 0)
                        add = 0;
                    bool fits = std::size_t(add) >= need + (chars > 15 ? 16 : 0); // growth policy of string: slack
                    bool may  = std::size_t(add) >= need;
                    std::shared_ptr<fm::joint_ptr<T, LeafA>> sp;
                    auto alive0 = ctl().alive.size();
                    auto live0  = env.leaf[0].live.size();
                    env.log.begin_op(0);
                    bool oom = false;
                    try
                    {
                        sp = std::make_shared<fm::joint_ptr<T, LeafA>>(
                            fm::allocate_joint<T>(env.la[0], fm::joint_size(std::size_t(add)), n, chars, int(oi)));
                    }
                    catch (const fm::out_of_fixed_memory&)
                    {
                        oom = true;
                    }
                    ++c.cases;
                    if (oom)
                    {
                        if (fits)
                            violate("C11,C03", "spurious_out_of_memory", "vector/string with joint_allocator: "
                                                                     "out_of_fixed_memory with %ld additional "
                                                                     "bytes, %zu needed",
                                    add, need);
                        if (ctl().alive.size() != alive0 || env.leaf[0].live.size() != live0)
                            violate("C11,C20", "memory_leaked", "failed joint creation left elements or the block "
                                                                "behind");
                        continue;
                    }
                    if (!may)
                        violate("C11,C03", "overrun_accepted", "containers with joint_allocator got %zu bytes out of "
                                                           "%ld additional",
                                need, add);
                    auto& o2 = **sp;
                    auto  lo = reinterpret_cast<const char*>(&o2) + sizeof(T), hi = lo + add;
                    if (n && (reinterpret_cast<const char*>(o2.vec.data()) < lo
                              || reinterpret_cast<const char*>(o2.vec.data() + n) > hi))
                        violate("C11", "outside_block", "vector storage outside the joint memory");
                    if (chars > 15 && (o2.str.data() < lo || o2.str.data() + chars > hi))
                        violate("C11", "outside_block", "string storage outside the joint memory");
                    Handle h;
                    h.ptr      = sp;
                    h.type     = 9;
                    h.elements = long(n);
                    h.destroy  = [sp] { sp->reset(); };
                    h.contents = [sp]
                    {
                        std::vector<int> v;
                        if (*sp)
                            for (auto& e : (*sp)->vec)
                                v.push_back(e.value);
                        return v;
                    };
                    h.mutate       = [] {};
                    h.layout_check = [](const char*) {};
                    h.clone        = [](int) { return Handle(); };
                    h.empty        = false;
                    c.hs.push_back(h);
                    stats().hit("reach.joint_containers");
                }
            }
            step = int(plan.ops.size());
            while (!c.hs.empty())
            {
                auto h = c.hs.back();
                c.hs.pop_back();
                if (h.type == 9)
                {
                    auto alive0 = ctl().alive.size();
                    h.destroy();
                    if (long(alive0 - ctl().alive.size()) != h.elements)
                        violate("C11", "element_count", "destroying a joint object with containers destroyed %ld "
                                                        "element(s) of %ld",
                                long(alive0 - ctl().alive.size()), h.elements);
                }
                else
                    check_destroy(c, h, "destruction");
            }
            if (!env.log.problem.empty())
                violate("C11,C09", "release_mismatch", "%s", env.log.problem.c_str());
            if (!ctl().alive.empty())
                violate("C11,C20", "elements_leaked", "%zu element(s) alive at the end", ctl().alive.size());
            if (!env.leaf[0].live.empty() || !env.leaf[1].live.empty())
                violate("C11", "memory_leaked", "%zu block(s) outstanding at the end",
                        env.leaf[0].live.size() + env.leaf[1].live.size());
            heap.end_op();
        }
        catch (Violation& v)
        {
            v.step       = step;
            res.violated = true;
            res.v        = v;
            new std::vector<Handle>(std::move(c.hs)); // abandoned, never destroyed
            heap.end_op();
        }
        stats().hit("reach.joint_cases", c.cases);
        res.nontrivial = c.cases >= 2;
    }
} // namespace cs
