// compsim: instrumented leaf RawAllocators placed under adapter compositions, and the call log the
// oracles read. Leaves serve memory from SimHeap, keep their own live set (so a release of memory they did
// not hand out is seen at the call), can run full (budget) and can be told to fail the k-th call of an op.
#pragma once
#include "../kernel/simheap.hpp"

#include <cstddef>
#include <map>
#include <string>
#include <type_traits>
#include <vector>

namespace cs
{
    struct Call
    {
        int         leaf;
        char        op; // 'n' allocate_node 'a' allocate_array 'N' deallocate_node 'A' deallocate_array,
                        // 't'/'u' try_allocate_node/array, 'T'/'U' try_deallocate_node/array
        std::size_t count, size, align;
        void*       ptr;
        bool        ok; // allocation succeeded / try_deallocate returned true
        bool        is_alloc() const
        {
            return op == 'n' || op == 'a' || op == 't' || op == 'u';
        }
        bool is_array() const
        {
            return op == 'a' || op == 'A' || op == 'u' || op == 'U';
        }
        std::size_t bytes() const
        {
            return is_array() ? count * size : size;
        }
    };

    struct Log
    {
        std::vector<Call> calls;
        std::string       problem; // first protocol problem seen by a leaf (foreign / double release ...)
        unsigned          op_calls = 0;
        int               fail_at  = 0; // k-th leaf allocation call of the current op fails
        bool              fired    = false;
        void              begin_op(int fail)
        {
            op_calls = 0;
            fail_at  = fail;
            fired    = false;
        }
    };

    struct LeafState
    {
        int         id     = 0;
        int         owner  = sim::OWNER_FIRST;
        Log*        log    = nullptr;
        std::size_t budget = std::size_t(-1); // bytes it can hand out before it is "full"
        std::size_t used   = 0;
        std::size_t max_node = std::size_t(-1), max_array = std::size_t(-1), max_align = 4096;
        bool        dynamic_max = false; // max_node_size() reports the remaining budget
        struct Live
        {
            bool        array;
            std::size_t count, size, align;
        };
        std::map<void*, Live> live;

        bool should_fail()
        {
            ++log->op_calls;
            if (log->fail_at && int(log->op_calls) == log->fail_at)
            {
                log->fired = true;
                return true;
            }
            return false;
        }

        void* acquire(char op, std::size_t count, std::size_t size, std::size_t align, bool throwing)
        {
            bool        arr   = op == 'a' || op == 'u';
            std::size_t bytes = arr ? count * size : size;
            void*       p     = nullptr;
            bool        fail  = should_fail();
            if (!fail && bytes <= budget - used && size <= max_node && bytes <= max_array)
                p = sim::SimHeap::get().request(owner, bytes ? bytes : 1, align < 16 ? 16 : align);
            log->calls.push_back({id, op, count, size, align, p, p != nullptr});
            if (p)
            {
                used += bytes;
                live[p] = {arr, count, size, align};
            }
            else if (throwing)
                throw sim::sim_bad_alloc();
            return p;
        }

        // returns whether the memory is ours (always true for the throwing interface: a foreign pointer
        // there is a protocol violation recorded in log->problem)
        bool release(char op, void* p, std::size_t count, std::size_t size, std::size_t align, bool trying)
        {
            bool arr = op == 'A' || op == 'U';
            auto it  = live.find(p);
            if (it == live.end())
            {
                log->calls.push_back({id, op, count, size, align, p, false});
                if (!trying && log->problem.empty())
                    log->problem = "leaf " + std::to_string(id)
                                   + " was asked to deallocate memory it did not hand out (or twice)";
                return false;
            }
            log->calls.push_back({id, op, count, size, align, p, true});
            auto& l = it->second;
            if ((l.array != arr || l.count != count || l.size != size || l.align != align)
                && log->problem.empty())
                log->problem = "leaf " + std::to_string(id) + " served " + (l.array ? "array" : "node")
                               + "(count " + std::to_string(l.count) + ", size " + std::to_string(l.size)
                               + ", align " + std::to_string(l.align) + ") and was released with "
                               + (arr ? "array" : "node") + "(count " + std::to_string(count) + ", size "
                               + std::to_string(size) + ", align " + std::to_string(align) + ")";
            std::size_t bytes = it->second.array ? it->second.count * it->second.size : it->second.size;
            used -= bytes;
            live.erase(it);
            sim::SimHeap::get().release(owner, p, sim::SimHeap::npos, 0, false);
            return true;
        }
    };

    // Leaf variants. All are stateful handles to a LeafState (copies refer to the same state, like a
    // resource handle); equality = same state.
    // (Tag only makes otherwise identical leaf types distinct: fallback_allocator cannot hold the same type
    //  at two nesting levels, its empty-base storages become ambiguous)
    template <bool HasArray, bool Composable, int Tag = 0>
    class Leaf
    {
    public:
        using is_stateful = std::true_type;
        explicit Leaf(LeafState* s = nullptr) noexcept : s_(s) {}

        void* allocate_node(std::size_t size, std::size_t alignment)
        {
            return s_->acquire('n', 1, size, alignment, true);
        }
        void deallocate_node(void* p, std::size_t size, std::size_t alignment) noexcept
        {
            s_->release('N', p, 1, size, alignment, false);
        }
        template <bool B = HasArray, typename = typename std::enable_if<B>::type>
        void* allocate_array(std::size_t count, std::size_t size, std::size_t alignment)
        {
            return s_->acquire('a', count, size, alignment, true);
        }
        template <bool B = HasArray, typename = typename std::enable_if<B>::type>
        void deallocate_array(void* p, std::size_t count, std::size_t size, std::size_t alignment) noexcept
        {
            s_->release('A', p, count, size, alignment, false);
        }
        template <bool B = Composable, typename = typename std::enable_if<B>::type>
        void* try_allocate_node(std::size_t size, std::size_t alignment) noexcept
        {
            return s_->acquire('t', 1, size, alignment, false);
        }
        template <bool B = Composable, typename = typename std::enable_if<B>::type>
        bool try_deallocate_node(void* p, std::size_t size, std::size_t alignment) noexcept
        {
            return s_->release('T', p, 1, size, alignment, true);
        }
        template <bool B = HasArray && Composable, typename = typename std::enable_if<B>::type>
        void* try_allocate_array(std::size_t count, std::size_t size, std::size_t alignment) noexcept
        {
            return s_->acquire('u', count, size, alignment, false);
        }
        template <bool B = HasArray && Composable, typename = typename std::enable_if<B>::type>
        bool try_deallocate_array(void* p, std::size_t count, std::size_t size,
                                  std::size_t alignment) noexcept
        {
            return s_->release('U', p, count, size, alignment, true);
        }
        std::size_t max_node_size() const noexcept
        {
            return s_->dynamic_max ? s_->budget - s_->used : s_->max_node;
        }
        std::size_t max_array_size() const noexcept
        {
            return s_->max_array;
        }
        std::size_t max_alignment() const noexcept
        {
            return s_->max_align;
        }
        LeafState* state() const noexcept
        {
            return s_;
        }
        friend bool operator==(const Leaf& a, const Leaf& b) noexcept
        {
            return a.s_ == b.s_;
        }
        friend bool operator!=(const Leaf& a, const Leaf& b) noexcept
        {
            return a.s_ != b.s_;
        }

    private:
        LeafState* s_;
    };

    using LeafN  = Leaf<false, false>;
    using LeafA  = Leaf<true, false>;
    using LeafC  = Leaf<false, true>;
    using LeafAC = Leaf<true, true>;

    // Stateless leaf: an empty type whose state is global (tag selects the instance).
    template <int Tag>
    struct StatelessLeaf
    {
        using is_stateful = std::false_type;
        static LeafState*& state()
        {
            static LeafState* s = nullptr;
            return s;
        }
        void* allocate_node(std::size_t size, std::size_t alignment)
        {
            return state()->acquire('n', 1, size, alignment, true);
        }
        void deallocate_node(void* p, std::size_t size, std::size_t alignment) noexcept
        {
            state()->release('N', p, 1, size, alignment, false);
        }
        void* allocate_array(std::size_t count, std::size_t size, std::size_t alignment)
        {
            return state()->acquire('a', count, size, alignment, true);
        }
        void deallocate_array(void* p, std::size_t count, std::size_t size, std::size_t alignment) noexcept
        {
            state()->release('A', p, count, size, alignment, false);
        }
        std::size_t max_node_size() const noexcept
        {
            return state()->max_node;
        }
        std::size_t max_array_size() const noexcept
        {
            return state()->max_array;
        }
        std::size_t max_alignment() const noexcept
        {
            return state()->max_align;
        }
    };

    // Tracker for tracked_allocator
    struct TrackEvent
    {
        char        op; // n a N A g(rowth) s(hrink)
        void*       ptr;
        std::size_t count, size, align;
    };
    struct TrackLog
    {
        std::vector<TrackEvent> ev;
    };
    struct Tracker
    {
        // (default constructible: a tracker somebody else made up instead of the user's one reports to nobody,
        //  which the tracker oracle then sees as missing events)
        TrackLog* log = nullptr;
        void      on_node_allocation(void* p, std::size_t size, std::size_t align) noexcept
        {
            if (log)
                log->ev.push_back({'n', p, 1, size, align});
        }
        void on_array_allocation(void* p, std::size_t count, std::size_t size, std::size_t align) noexcept
        {
            if (log)
                log->ev.push_back({'a', p, count, size, align});
        }
        void on_node_deallocation(void* p, std::size_t size, std::size_t align) noexcept
        {
            if (log)
                log->ev.push_back({'N', p, 1, size, align});
        }
        void on_array_deallocation(void* p, std::size_t count, std::size_t size, std::size_t align) noexcept
        {
            if (log)
                log->ev.push_back({'A', p, count, size, align});
        }
        void on_allocator_growth(void* p, std::size_t size) noexcept
        {
            if (log)
                log->ev.push_back({'g', p, 1, size, 0});
        }
        void on_allocator_shrinking(void* p, std::size_t size) noexcept
        {
            if (log)
                log->ev.push_back({'s', p, 1, size, 0});
        }
    };
} // namespace cs
