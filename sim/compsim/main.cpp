#include "modes.hpp"
#include "../kernel/simheap.hpp"

namespace cs
{
    __attribute__((weak)) void run_joint(const sim::Plan&, sim::RunResult& res, sim::RunHash&)
    {
        res.skip = "joint mode not built";
    }
    __attribute__((weak)) void run_cont(const sim::Plan&, sim::RunResult& res, sim::RunHash&)
    {
        res.skip = "container mode not built";
    }
} // namespace cs

namespace
{
    class CompSim : public sim::Engine
    {
    public:
        const char* name() const override
        {
            return "compsim";
        }
        sim::Plan generate(const std::string& profile, std::uint64_t seed) override
        {
            return cs::generate(profile, seed);
        }
        sim::RunResult execute(const sim::Plan& p) override
        {
            sim::RunResult res;
            sim::RunHash   hash;
            auto&          heap = sim::SimHeap::get();
            heap.reset(int(p.num("place", 0)), false, false, (std::uint64_t)p.num("hseed", 1));
            auto mode = p.get("mode");
            if (mode == "wrap")
                cs::run_wrap(p, res, hash);
            else if (mode == "smart")
                cs::run_smart(p, res, hash);
            else if (mode == "joint")
                cs::run_joint(p, res, hash);
            else if (mode == "cont")
                cs::run_cont(p, res, hash);
            else if (mode == "deep")
                cs::run_deep(p, res, hash);
            else
                res.skip = "unknown mode";
            for (auto& e : heap.events())
            {
                hash.add(e.acquire);
                hash.add(e.off);
                hash.add(e.size);
            }
            res.hash = hash.h;
            res.ops  = p.ops.size();
            return res;
        }
    };
} // namespace

#include <foonathan/memory/debugging.hpp>
#include <foonathan/memory/error.hpp>

int main(int argc, char** argv)
{
    // silent handlers: the library's defaults print to stderr (out of memory is an expected event here)
    namespace fm = foonathan::memory;
    fm::out_of_memory::set_handler([](const fm::allocator_info&, std::size_t) {});
    fm::bad_allocation_size::set_handler([](const fm::allocator_info&, std::size_t, std::size_t) {});
    fm::set_leak_handler([](const fm::allocator_info&, std::ptrdiff_t) {});
    CompSim e;
    return sim::engine_main(argc, argv, e);
}
