#pragma once
#include "comp.hpp"
#include "../kernel/engine.hpp"
#include "../kernel/report.hpp"

#include <cstring>

namespace cs
{
    void run_wrap(const sim::Plan& plan, sim::RunResult& res, sim::RunHash& hash);
    void run_smart(const sim::Plan& plan, sim::RunResult& res, sim::RunHash& hash);
    void run_joint(const sim::Plan& plan, sim::RunResult& res, sim::RunHash& hash);
    void run_cont(const sim::Plan& plan, sim::RunResult& res, sim::RunHash& hash);
    void run_deep(const sim::Plan& plan, sim::RunResult& res, sim::RunHash& hash);
    sim::Plan generate(const std::string& profile, std::uint64_t seed);
} // namespace cs
