// compsim "smart" mode: allocator deleters and smart pointer helpers (C09) and their exception safety at
// every constructor failure point (C20), on logging leaves and on real pools / stacks.
#include "modes.hpp"
#include "inst.hpp"
#include "../kernel/simalloc.hpp"

#include <functional>
#include <memory>

#include <foonathan/memory/memory_pool.hpp>
#include <foonathan/memory/memory_stack.hpp>
#include <foonathan/memory/smart_ptr.hpp>

using namespace sim;

namespace cs
{
    namespace
    {
        using Pool  = fm::memory_pool<fm::array_pool, fm::growing_block_allocator<sim::sim_lifo_allocator>>;
        using Stack = fm::memory_stack<fm::growing_block_allocator<sim::sim_lifo_allocator>>;

        struct Owner
        {
            std::function<void()> destroy;
            long                  elements;
            int                   alloc;
        };

        struct Base
        {
            virtual ~Base() {}
            int tag = 7;
        };
        template <std::size_t Pad>
        struct Derived : Base
        {
            Inst<4, 4>    probe;
            unsigned char pad[Pad];
        };

        struct Ctx
        {
            Env*                  env;
            std::unique_ptr<Pool>  pool;
            std::unique_ptr<Stack> stack;
            std::vector<Owner>    owners;
            RunHash*              hash;
            std::uint64_t         cases = 0;
        };

        // what "memory obtained" means per allocator: something that must be back to its old value after a
        // failed creation
        std::size_t footprint(Ctx& c, int alloc)
        {
            switch (alloc)
            {
            case 0:
            case 1:
            case 4:
                return c.env->leaf[0].live.size();
            case 2:
                return c.pool->capacity_left();
            default:
                return 0; // a stack only gives memory back on unwind: nothing to compare
            }
        }

        template <class T, class F>
        void guarded(Ctx& c, const char* what, int alloc, long n, long k, F make)
        {
            auto& ct     = ctl();
            auto  alive0 = ct.alive.size();
            auto  foot0  = footprint(c, alloc);
            c.env->log.begin_op(0);
            ct.arm(k);
            bool        threw = false, ok = false;
            std::string other;
            try
            {
                make();
                ok = true;
            }
            catch (const Injected& e)
            {
                threw = true;
                if (e.id != ct.thrown_id)
                    other = "a different exception object arrived";
            }
            catch (const std::bad_alloc&)
            {
                other = "bad_alloc";
            }
            catch (...)
            {
                other = "unknown exception";
            }
            ct.arm(0);
            ++c.cases;
            c.hash->add(0x51 + (ok ? 1 : 0) + (threw ? 2 : 0));
            if (!other.empty() && other != "bad_alloc")
                violate("C20", "exception_changed", "%s (n=%ld, failure at %ld): %s", what, n, k, other.c_str());
            if (other == "bad_alloc")
            {
                // allocation failure (exhausted real allocator): nothing may be left behind either
                if (ct.alive.size() != alive0)
                    violate("C20", "elements_leaked", "%s: allocation failed but %zu element(s) stay alive", what,
                            ct.alive.size() - alive0);
                return;
            }
            bool expect_throw = k >= 1 && k <= n;
            if (expect_throw != threw)
                violate("C20", "exception_swallowed", "%s (n=%ld): failure injected at construction %ld, %s", what,
                        n, k, threw ? "an exception arrived although none was injected" : "no exception arrived");
            if (!ct.problem.empty())
                violate("C20", "element_lifecycle", "%s (n=%ld, failure at %ld): %s", what, n, k,
                        ct.problem.c_str());
            if (!c.env->log.problem.empty())
                violate("C20,C09,C10", "release_mismatch", "%s (n=%ld, failure at %ld): %s", what, n, k,
                        c.env->log.problem.c_str());
            if (threw)
            {
                stats().hit("fault.constructor_failure_fired");
                if (ct.alive.size() != alive0)
                    violate("C20", "elements_leaked", "%s (n=%ld, failure at %ld): %ld element(s) constructed "
                                                      "before the failure were not destroyed",
                            what, n, k, long(ct.alive.size()) - long(alive0));
                // (a pool may have grown while serving the request: then more is free than before, never less)
                if (alloc == 2 ? footprint(c, alloc) < foot0 : footprint(c, alloc) != foot0)
                    violate("C20,C09,C10", "memory_leaked", "%s (n=%ld, failure at %ld): the memory obtained for the "
                                                    "object was not given back",
                            what, n, k);
            }
            else
            {
                if (long(ct.alive.size() - alive0) != n)
                    violate("C20", "element_count", "%s (n=%ld): %ld element(s) alive after success", what, n,
                            long(ct.alive.size() - alive0));
            }
        }

        template <class T, class Alloc>
        void op_unique(Ctx& c, Alloc& a, int alloc, long k)
        {
            guarded<T>(c, "allocate_unique<T>", alloc, 1, k,
                       [&]
                       {
                           auto p = fm::allocate_unique<T>(a, 42);
                           auto sp = std::make_shared<decltype(p)>(std::move(p));
                           c.owners.push_back({[sp]() mutable { sp->reset(); }, 1, alloc});
                       });
        }
        template <class T, class Alloc>
        void op_unique_any(Ctx& c, Alloc& a, int alloc, long k)
        {
            guarded<T>(c, "allocate_unique<T>(any_allocator)", alloc, 1, k,
                       [&]
                       {
                           auto p  = fm::allocate_unique<T>(fm::any_allocator{}, a, 42);
                           auto sp = std::make_shared<decltype(p)>(std::move(p));
                           c.owners.push_back({[sp]() mutable { sp->reset(); }, 1, alloc});
                       });
        }
        template <class T, class Alloc>
        void op_array(Ctx& c, Alloc& a, int alloc, long n, long k)
        {
            guarded<T>(c, "allocate_unique<T[]>", alloc, n, k,
                       [&]
                       {
                           auto p  = fm::allocate_unique<T[]>(a, std::size_t(n));
                           auto sp = std::make_shared<decltype(p)>(std::move(p));
                           c.owners.push_back({[sp]() mutable { sp->reset(); }, n, alloc});
                       });
        }
        template <class T, class Alloc>
        void op_shared(Ctx& c, Alloc& a, int alloc, long k)
        {
            guarded<T>(c, "allocate_shared<T>", alloc, 1, k,
                       [&]
                       {
                           auto p = fm::allocate_shared<T>(a, 42);
                           c.owners.push_back({[p]() mutable { p.reset(); }, 1, alloc});
                       });
        }
        // the object is a copy of an lvalue: the copy constructor can fail although the move constructor is noexcept
        template <class T, class Alloc>
        void op_copy_of_lvalue(Ctx& c, Alloc& a, int alloc, long k, bool shared)
        {
            T proto; // (noexcept default constructor, not a counted construction; alive before and after)
            if (shared)
                guarded<T>(c, "allocate_shared<T>(copy of an lvalue)", alloc, 1, k,
                           [&]
                           {
                               auto p = fm::allocate_shared<T>(a, proto);
                               c.owners.push_back({[p]() mutable { p.reset(); }, 1, alloc});
                           });
            else
                guarded<T>(c, "allocate_unique<T>(copy of an lvalue)", alloc, 1, k,
                           [&]
                           {
                               auto p  = fm::allocate_unique<T>(a, proto);
                               auto sp = std::make_shared<decltype(p)>(std::move(p));
                               c.owners.push_back({[sp]() mutable { sp->reset(); }, 1, alloc});
                           });
        }
        template <std::size_t Pad, class Alloc>
        void op_base(Ctx& c, Alloc& a, int alloc, long k)
        {
            using D = Derived<Pad>;
            guarded<D>(c, "unique_base_ptr from allocate_unique<Derived>", alloc, 1, k,
                       [&]
                       {
                           fm::unique_base_ptr<Base, Alloc> bp = fm::allocate_unique<D>(a);
                           auto sp = std::make_shared<decltype(bp)>(std::move(bp));
                           c.owners.push_back({[sp]() mutable { sp->reset(); }, 1, alloc});
                       });
        }

        // the deallocator classes used directly (they release, they do not destroy: trivially destructible types)
        struct PBase
        {
            int tag;
        };
        template <std::size_t Pad>
        struct PDerived : PBase
        {
            unsigned char pad[Pad];
        };
        // (Pad 64: a derived type that is over-aligned compared with its base)
        template <>
        struct PDerived<64> : PBase
        {
            alignas(64) unsigned char pad[64];
        };
        template <std::size_t Pad, class Alloc>
        void op_dealloc_direct(Ctx& c, Alloc& a, int form, std::size_t n)
        {
            using D      = PDerived<Pad>;
            using traits = fm::allocator_traits<Alloc>;
            c.env->log.begin_op(0);
            ++c.cases;
            if (form == 0)
            {
                // node of D, owned through allocator_deallocator<D>
                auto mem = traits::allocate_node(a, sizeof(D), alignof(D));
                std::unique_ptr<D, fm::allocator_deallocator<D, Alloc>> p(::new (mem) D, {a});
                auto sp = std::make_shared<decltype(p)>(std::move(p));
                c.owners.push_back({[sp]() mutable { sp->reset(); }, 0, 0});
            }
            else if (form == 1)
            {
                // array of n D, owned through allocator_deallocator<D[]>
                auto mem = traits::allocate_array(a, n, sizeof(D), alignof(D));
                std::unique_ptr<D[], fm::allocator_deallocator<D[], Alloc>> p(static_cast<D*>(mem), {a, n});
                auto sp = std::make_shared<decltype(p)>(std::move(p));
                c.owners.push_back({[sp]() mutable { sp->reset(); }, 0, 0});
            }
            else
            {
                // node of D, converted to a pointer to its base with allocator_polymorphic_deallocator<PBase>
                auto mem = traits::allocate_node(a, sizeof(D), alignof(D));
                std::unique_ptr<D, fm::allocator_deallocator<D, Alloc>> p(::new (mem) D, {a});
                std::unique_ptr<PBase, fm::allocator_polymorphic_deallocator<PBase, Alloc>> bp(std::move(p));
                auto sp = std::make_shared<decltype(bp)>(std::move(bp));
                c.owners.push_back({[sp]() mutable { sp->reset(); }, 0, 0});
            }
            if (!c.env->log.problem.empty())
                violate("C09,C10", "release_mismatch", "deallocator class used directly: %s", c.env->log.problem.c_str());
            stats().hit("reach.deallocator_used_directly");
        }

        template <class T, class Alloc>
        void op_array_any(Ctx& c, Alloc& a, int alloc, long n, long k)
        {
            guarded<T>(c, "allocate_unique<T[]>(any_allocator)", alloc, n, k,
                       [&]
                       {
                           auto p  = fm::allocate_unique<T[]>(fm::any_allocator{}, a, std::size_t(n));
                           auto sp = std::make_shared<decltype(p)>(std::move(p));
                           c.owners.push_back({[sp]() mutable { sp->reset(); }, n, alloc});
                       });
        }

        template <class T>
        void dispatch(Ctx& c, int helper, int alloc, long n, long k)
        {
            auto& e = *c.env;
            switch (alloc % 5)
            {
            case 0:
                if (helper == 0)
                    op_unique<T>(c, e.la[0], 0, k);
                else if (helper == 1)
                    op_array<T>(c, e.la[0], 0, n, k);
                else if (helper == 2)
                    op_shared<T>(c, e.la[0], 0, k);
                break;
            case 1:
                if (helper == 0)
                    op_unique<T>(c, e.ln[0], 1, k);
                else if (helper == 1)
                    op_array<T>(c, e.ln[0], 1, n, k);
                else if (helper == 2)
                    op_shared<T>(c, e.ln[0], 1, k);
                break;
            case 2:
                if (sizeof(T) > c.pool->node_size())
                    return;
                if (helper == 0)
                    op_unique<T>(c, *c.pool, 2, k);
                else if (helper == 1)
                    op_array<T>(c, *c.pool, 2, n, k);
                break;
            case 3:
                if (helper == 0)
                    op_unique<T>(c, *c.stack, 3, k);
                else if (helper == 1)
                    op_array<T>(c, *c.stack, 3, n, k);
                else if (helper == 2)
                    op_shared<T>(c, *c.stack, 3, k);
                break;
            case 4:
                if (helper == 0)
                    op_unique_any<T>(c, e.la[0], 4, k);
                break;
            }
        }

        void one(Ctx& c, int ty, int helper, int alloc, long n, long k)
        {
            switch (ty % 3)
            {
            case 0:
                dispatch<Inst<4, 4>>(c, helper, alloc, n, k);
                break;
            case 1:
                dispatch<Inst<100, 8>>(c, helper, alloc, n, k);
                break;
            default:
                dispatch<Inst<40, 16>>(c, helper, alloc, n, k);
            }
        }

        void drop(Ctx& c, std::size_t i)
        {
            auto o = c.owners[i];
            c.owners.erase(c.owners.begin() + (long)i);
            auto& ct     = ctl();
            auto  alive0 = ct.alive.size();
            auto  live0  = c.env->leaf[0].live.size();
            c.env->log.begin_op(0);
            o.destroy();
            if (long(alive0 - ct.alive.size()) != o.elements)
                violate("C20", "element_count", "destroying the owner destroyed %ld element(s), it held %ld",
                        long(alive0 - ct.alive.size()), o.elements);
            if (!ct.problem.empty())
                violate("C20", "element_lifecycle", "on destruction: %s", ct.problem.c_str());
            if (!c.env->log.problem.empty())
                violate("C09,C20,C10", "release_mismatch", "on destruction: %s", c.env->log.problem.c_str());
            if ((o.alloc == 0 || o.alloc == 1 || o.alloc == 4) && c.env->leaf[0].live.size() + 1 != live0)
                violate("C09,C20,C10", "release_count", "destroying the owner released %ld block(s) to the allocator",
                        long(live0) - long(c.env->leaf[0].live.size()));
            c.hash->add(0x5D);
        }
    } // namespace

    void run_smart(const Plan& plan, RunResult& res, RunHash& hash)
    {
        static Env env;
        env.reset();
        ctl().reset();
        Ctx c;
        c.env  = &env;
        c.hash = &hash;
        auto& heap = SimHeap::get();
        int   step = -1;
        try
        {
            heap.begin_op(0);
            c.pool.reset(new Pool(std::size_t(plan.num("pool_node", 128)),
                                  std::size_t(plan.num("pool_block", 4096)), sim::sim_lifo_allocator(40)));
            c.stack.reset(new Stack(std::size_t(plan.num("stack_block", 2048)), sim::sim_lifo_allocator(41)));
            for (std::size_t oi = 0; oi < plan.ops.size(); ++oi)
            {
                step          = int(oi);
                const auto& o = plan.ops[oi];
                if (o.kind == "mk")
                {
                    // mk type helper alloc n k
                    long n = o.arg(1) == 1 ? 1 + o.arg(3) % 16 : 1;
                    long k = o.arg(4) % (n + 2); // 0 none, 1..n, n+1 beyond
                    one(c, int(o.arg(0)), int(o.arg(1)) % 3, int(o.arg(2)), n, k);
                }
                else if (o.kind == "mkx")
                {
                    // less travelled forms: a type whose default constructor is noexcept but whose value constructor
                    // can fail; the type-erased array overload; arrays of length 0
                    using TN  = InstN<4, 4>;
                    long form = o.arg(0) % 10, n = o.arg(1) % 17, k = o.arg(2);
                    switch (form)
                    {
                    case 0:
                        op_unique<TN>(c, env.la[0], 0, k % 3);
                        break;
                    case 1:
                        op_shared<TN>(c, env.la[0], 0, k % 3);
                        break;
                    case 2:
                        op_unique_any<TN>(c, env.la[0], 4, k % 3);
                        break;
                    case 3:
                        op_array_any<Inst<4, 4>>(c, env.la[0], 4, n, k % (n + 2));
                        break;
                    case 4:
                        op_array<Inst<40, 16>>(c, env.la[0], 0, n, k % (n + 2)); // (n may be 0)
                        break;
                    case 5:
                        // an array of a type whose default constructor is noexcept (the helper's loop without
                        // roll-back): n elements alive afterwards, each destroyed once with the owner
                        op_array<TN>(c, env.la[0], 0, n, 0);
                        break;
                    case 6:
                        op_shared<Inst<40, 64>>(c, env.la[0], 0, k % 3); // an over-aligned type (alignas(64))
                        break;
                    case 7:
                        op_unique<Inst<40, 64>>(c, env.la[0], 0, k % 3);
                        break;
                    case 8:
                    case 9:
                        op_copy_of_lvalue<TN>(c, env.la[0], 0, k % 3, form == 8);
                        break;
                    default:
                        op_array_any<Inst<100, 8>>(c, env.la[0], 4, 0, 0); // an array of no elements, type-erased
                    }
                    stats().hit("reach.smart_less_travelled_forms");
                }
                else if (o.kind == "base")
                {
                    // polymorphic deleter: small and > 65535 byte derived types
                    long k = o.arg(1) % 2;
                    if (o.arg(0) % 2)
                        op_base<70000>(c, env.la[0], 0, k);
                    else
                        op_base<24>(c, env.la[0], 0, k);
                }
                else if (o.kind == "dl")
                {
                    int         form = int(o.arg(0)) % 3;
                    std::size_t n    = 1 + std::size_t(o.arg(2)) % 9;
                    switch (o.arg(1) % 4)
                    {
                    case 3:
                        op_dealloc_direct<64>(c, env.la[0], form, n);
                        break;
                    case 0:
                        op_dealloc_direct<4>(c, env.la[0], form, n);
                        break;
                    case 1:
                        op_dealloc_direct<100>(c, env.la[0], form, n);
                        break;
                    default:
                        op_dealloc_direct<70000>(c, env.la[0], form, form == 1 ? 1 + n % 3 : n);
                    }
                }
                else if (o.kind == "drop")
                {
                    if (!c.owners.empty())
                        drop(c, std::size_t(o.arg(0)) % c.owners.size());
                }
                else if (o.kind == "sweep")
                {
                    // complete table: helper x element type x allocator x length 1..16 x failure index 0..n+1
                    for (int helper = 0; helper < 3; ++helper)
                        for (int ty = 0; ty < 3; ++ty)
                            for (int alloc = 0; alloc < 5; ++alloc)
                                for (long n = 1; n <= (helper == 1 ? 16 : 1); ++n)
                                    for (long k = 0; k <= n + 1; ++k)
                                    {
                                        one(c, ty, helper, alloc, n, k);
                                        while (c.owners.size() > 3)
                                            drop(c, 0);
                                    }
                    for (int big = 0; big < 2; ++big)
                        for (long k = 0; k < 2; ++k)
                        {
                            if (big)
                                op_base<70000>(c, env.la[0], 0, k);
                            else
                                op_base<24>(c, env.la[0], 0, k);
                        }
                    stats().hit("reach.c20_table_complete");
                }
            }
            step = int(plan.ops.size());
            while (!c.owners.empty())
                drop(c, c.owners.size() - 1);
            if (!ctl().alive.empty())
                violate("C20", "elements_leaked", "%zu element(s) alive at the end", ctl().alive.size());
            if (!env.leaf[0].live.empty())
                violate("C09,C20,C10", "leaf_memory_lost", "%zu leaf allocation(s) outstanding at the end",
                        env.leaf[0].live.size());
            c.pool.reset();
            c.stack.reset();
            heap.end_op();
        }
        catch (Violation& v)
        {
            v.step       = step;
            res.violated = true;
            res.v        = v;
            c.owners.clear();
            c.pool.release();
            c.stack.release();
            heap.end_op();
        }
        stats().hit("reach.c20_cases", c.cases);
        res.nontrivial = c.cases >= 2;
    }
} // namespace cs
