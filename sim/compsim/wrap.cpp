// compsim "wrap" mode (C09, C08 routing): histories of requests through one adapter composition over logging
// leaves; every wrapper call is compared with what the leaves saw.
#include "modes.hpp"

#include <algorithm>

using namespace sim;

namespace cs
{
    namespace
    {
        struct Rec
        {
            void*       p;
            Req         r;      // as given to the wrapper
            int         leaf;   // underlying request
            bool        u_array;
            std::size_t u_count, u_size, u_align;
        };
    } // namespace

    void run_wrap(const Plan& plan, RunResult& res, RunHash& hash)
    {
        static Env env; // leaves must outlive nothing: reset per run
        env.reset();
        env.th1       = std::size_t(plan.num("th1", 64));
        env.th2       = std::size_t(plan.num("th2", 512));
        env.min_align = std::size_t(plan.num("min_align", 1));
        for (int i = 0; i < 4; ++i)
        {
            auto sfx = std::to_string(i);
            if (plan.cfg.count("budget" + sfx))
                env.leaf[i].budget = std::size_t(plan.num("budget" + sfx));
            if (plan.cfg.count("maxnode" + sfx))
                env.leaf[i].max_node = std::size_t(plan.num("maxnode" + sfx));
            env.leaf[i].dynamic_max = plan.num("dynmax" + sfx, 0) != 0;
        }
        auto name = plan.get("comp");
        auto it   = comp_registry().find(name);
        if (it == comp_registry().end())
        {
            res.skip = "unknown composition " + name;
            return;
        }
        std::unique_ptr<Comp> comp(it->second(env));
        stats().hit("comp." + name);
        std::vector<Rec> live;
        auto&            heap = SimHeap::get();
        bool             released_any = false, fallback_used = false;
        int              step = -1;

        auto check_leaf_problem = [&](const char* when)
        {
            if (!env.log.problem.empty())
                violate("C09,C08", "leaf_protocol", "%s: %s", when, env.log.problem.c_str());
            auto pending = heap.take_pending();
            if (!pending.empty() && pending.compare(0, 8, "HARNESS:") != 0)
                violate("C09", "leaf_protocol", "%s: %s", when, pending.c_str());
        };

        auto do_free = [&](std::size_t idx)
        {
            Rec  rec = live[idx];
            live.erase(live.begin() + (long)idx);
            auto n0 = env.log.calls.size();
            auto t0 = env.track.ev.size();
            env.log.begin_op(0);
            heap.begin_op(0);
            bool ok = comp->dealloc(rec.r, rec.p);
            heap.end_op();
            hash.add(0xF0 + (ok ? 1 : 0));
            released_any = true;
            if (rec.r.fam == COMP && !ok)
                violate("C08,C09", "own_dealloc_refused", "try_deallocate through the composition returned "
                                                          "false for memory it handed out (leaf %d)",
                        rec.leaf);
            unsigned good = 0;
            for (auto i = n0; i < env.log.calls.size(); ++i)
            {
                auto& c = env.log.calls[i];
                if (c.is_alloc())
                    violate("C09", "release_allocated", "a deallocation made an allocation request to leaf %d",
                            c.leaf);
                if (!c.ok)
                    continue; // a refused try_deallocate on a leaf that does not own the memory
                ++good;
                if (c.leaf != rec.leaf)
                    violate("C08,C09", "release_wrong_leaf", "memory served by leaf %d was released to leaf %d",
                            rec.leaf, c.leaf);
                if (c.ptr != rec.p || c.is_array() != rec.u_array || c.count != rec.u_count
                    || c.size != rec.u_size || c.align != rec.u_align)
                    violate("C08,C09", "release_mismatch",
                            "leaf %d served %s(count %zu, size %zu, align %zu) and was released with "
                            "%s(count %zu, size %zu, align %zu)",
                            rec.leaf, rec.u_array ? "array" : "node", rec.u_count, rec.u_size, rec.u_align,
                            c.is_array() ? "array" : "node", c.count, c.size, c.align);
            }
            if (good != 1)
                violate("C08,C09", "release_count", "one deallocation through the composition led to %u "
                                                    "successful leaf releases",
                        good);
            check_leaf_problem("deallocation");
            if (comp->has_tracker)
            {
                unsigned n = 0;
                for (auto i = t0; i < env.track.ev.size(); ++i)
                    if ((env.track.ev[i].op == 'N' || env.track.ev[i].op == 'A')
                        && env.track.ev[i].ptr == rec.p)
                        ++n;
                unsigned want = (comp->tracked_leaf < 0 || comp->tracked_leaf == rec.leaf) ? 1 : 0;
                if (n != want || env.track.ev.size() - t0 != want)
                    violate("C09,C08", "tracker_events", "the deallocation of memory served by leaf %d produced "
                                                         "%zu tracker event(s), expected %u",
                            rec.leaf, env.track.ev.size() - t0, want);
            }
        };

        try
        {
            for (std::size_t oi = 0; oi < plan.ops.size(); ++oi)
            {
                step          = int(oi);
                const auto& o = plan.ops[oi];
                if (o.kind == "al")
                {
                    // al fam array count size align
                    Req r;
                    r.fam   = (o.arg(0) % 2 && comp->composable) ? COMP : TRAITS;
                    r.array = o.arg(1) % 2 && comp->array_ok;
                    r.count = r.array ? 1 + std::size_t(o.arg(2)) % 20 : 1;
                    r.size  = 1 + std::size_t(o.arg(3)) % 100000;
                    r.align = std::size_t(1) << (std::size_t(o.arg(4)) % 7);
                    if (comp->fixed_size)
                    {
                        r.size  = comp->fixed_size;
                        r.align = comp->fixed_align;
                    }
                    if (comp->align_cap && r.align > comp->align_cap)
                        r.align = comp->align_cap;
                    if (r.array && r.count * r.size > (200u << 10))
                        r.count = 1 + (200u << 10) / r.size / 2;
                    if (r.size > (200u << 10))
                        r.size = 200u << 10;
                    auto n0 = env.log.calls.size();
                    auto t0 = env.track.ev.size();
                    env.log.begin_op(o.fail);
                    heap.begin_op(0);
                    void* p     = nullptr;
                    bool  threw = false;
                    try
                    {
                        p = comp->alloc(r);
                    }
                    catch (const std::bad_alloc&)
                    {
                        threw = true;
                    }
                    heap.end_op();
                    hash.add(0xA0 + unsigned(r.fam) + (r.array ? 4 : 0));
                    hash.add(r.count * 1000003 + r.size);
                    hash.add(p ? heap.off(p) : 1);
                    if (env.log.fired)
                        stats().hit("fault.leaf_failure_fired");
                    const Call* served = nullptr;
                    unsigned    ok_n   = 0;
                    int         per_leaf[4] = {0, 0, 0, 0};
                    for (auto i = n0; i < env.log.calls.size(); ++i)
                    {
                        auto& c = env.log.calls[i];
                        if (!c.is_alloc())
                        {
                            // a rollback of something acquired in this very call is the only legitimate release
                            bool rollback = false;
                            for (auto j = n0; j < i; ++j)
                                if (env.log.calls[j].is_alloc() && env.log.calls[j].ok
                                    && env.log.calls[j].ptr == c.ptr)
                                    rollback = true;
                            if (!rollback)
                                violate("C09", "alloc_released", "an allocation released memory of leaf %d",
                                        c.leaf);
                            --ok_n;
                            continue;
                        }
                        // a composable request must stay composable all the way down: a leaf asked through its throwing
                        // interface may grow or throw inside a function that promises neither
                        if (r.fam == COMP && (c.op == 'n' || c.op == 'a'))
                            violate("C09,C03", "try_used_throwing_interface",
                                    "a try_ function of the composition called the throwing %s of leaf %d",
                                    c.op == 'n' ? "allocate_node" : "allocate_array", c.leaf);
                        if (++per_leaf[c.leaf] > 1)
                            violate("C09", "request_repeated", "one allocation through the composition made %d "
                                                               "requests to leaf %d",
                                    per_leaf[c.leaf], c.leaf);
                        if (c.ok)
                        {
                            ++ok_n;
                            served = &c;
                        }
                    }
                    if (!p)
                    {
                        if (r.fam == TRAITS && !threw)
                            violate("C09,C03", "null_return", "throwing allocation returned nullptr");
                        if (ok_n != 0)
                            violate("C09", "leaf_memory_lost", "the composition reported failure but a leaf had "
                                                               "served the request (and was not given it back)");
                        if (comp->has_tracker && env.track.ev.size() != t0)
                            violate("C09", "tracker_events", "a failed allocation produced %zu tracker event(s)",
                                    env.track.ev.size() - t0);
                        check_leaf_problem("failed allocation");
                        continue;
                    }
                    if (ok_n != 1 || !served)
                        violate("C09", "request_count", "one successful allocation through the composition was "
                                                        "served by %u leaf requests",
                                ok_n);
                    if (served->ptr != p)
                        violate("C09", "pointer_changed", "the composition returned a pointer different from "
                                                          "the leaf's");
                    auto want = r.array ? r.count * r.size : r.size;
                    if (served->bytes() < want)
                        violate("C09", "under_request", "requested %zu bytes, leaf %d was asked for %zu", want,
                                served->leaf, served->bytes());
                    if (served->align < r.align)
                        violate("C09", "under_aligned", "requested alignment %zu, leaf %d was asked for %zu",
                                r.align, served->leaf, served->align);
                    // leaf 0 of the compositions with an aligned_allocator sits under it: whatever the caller asks for,
                    // the leaf is asked for at least the minimum alignment
                    if (served->leaf == 0 && comp->name.find("aligned") != std::string::npos
                        && served->align < env.min_align)
                        violate("C09,C02", "under_aligned", "aligned_allocator with minimum alignment %zu asked its "
                                                            "allocator for alignment %zu (%s of %zu x %zu)",
                                env.min_align, served->align, r.array ? "array" : "node", r.count, r.size);
                    if (reinterpret_cast<std::uintptr_t>(p) % r.align)
                        violate("C09,C02", "misaligned", "pointer not aligned to %zu", r.align);
                    if (served->leaf > 0)
                        fallback_used = true;
                    if (comp->has_tracker)
                    {
                        unsigned n = 0;
                        for (auto i = t0; i < env.track.ev.size(); ++i)
                            if ((env.track.ev[i].op == 'n' || env.track.ev[i].op == 'a')
                                && env.track.ev[i].ptr == p)
                                ++n;
                        unsigned want = (comp->tracked_leaf < 0 || comp->tracked_leaf == served->leaf) ? 1 : 0;
                        if (n != want || env.track.ev.size() - t0 != want)
                            violate("C09", "tracker_events", "an allocation served by leaf %d produced %zu "
                                                             "tracker event(s), expected %u",
                                    served->leaf, env.track.ev.size() - t0, want);
                    }
                    check_leaf_problem("allocation");
                    std::memset(p, 0x5A, want);
                    live.push_back({p, r, served->leaf, served->is_array(), served->count, served->size,
                                    served->align});
                }
                else if (o.kind == "fr")
                {
                    if (live.empty())
                        continue;
                    do_free(std::size_t(o.arg(0)) % live.size());
                }
                else if (o.kind == "mvw")
                {
                    // move-assign a second instance of the composition (other knobs) onto this one: what was
                    // allocated through the source is released through the target afterwards
                    while (!live.empty())
                        do_free(live.size() - 1);
                    auto keep_align = env.min_align, keep_th = env.th1;
                    env.min_align   = std::size_t(1) << (std::size_t(o.arg(0)) % 7);
                    env.th1         = 8 + std::size_t(o.arg(1)) % 300;
                    std::unique_ptr<Comp> other(it->second(env));
                    auto others_align = env.min_align;
                    env.min_align = keep_align;
                    env.th1       = keep_th;
                    std::vector<Rec> moved;
                    for (int k = 0; k < 3; ++k)
                    {
                        Req r{TRAITS, k == 1 && other->array_ok, k == 1 ? std::size_t(3) : std::size_t(1),
                              other->fixed_size ? other->fixed_size : 24 + std::size_t(o.arg(2)) % 100,
                              other->fixed_size ? other->fixed_align : 8};
                        auto n0 = env.log.calls.size();
                        env.log.begin_op(0);
                        heap.begin_op(0);
                        void* p = nullptr;
                        try
                        {
                            p = other->alloc(r);
                        }
                        catch (const std::bad_alloc&)
                        {
                        }
                        heap.end_op();
                        if (!p)
                            continue;
                        for (auto i = n0; i < env.log.calls.size(); ++i)
                        {
                            auto& c = env.log.calls[i];
                            if (c.is_alloc() && c.ok && c.ptr == p)
                                moved.push_back({p, r, c.leaf, c.is_array(), c.count, c.size, c.align});
                        }
                    }
                    if (comp->move_assign_from(*other))
                    {
                        stats().hit("reach.composition_move_assigned");
                        env.min_align = others_align; // (the knobs travel with the assignment)
                        for (auto& m : moved)
                            live.push_back(m);
                        other.reset(); // the moved-from instance goes away
                    }
                    else
                    {
                        // not assignable: give the memory back through the instance that served it
                        auto keep = std::move(comp);
                        comp      = std::move(other);
                        for (auto& m : moved)
                            live.push_back(m);
                        while (!live.empty())
                            do_free(live.size() - 1);
                        other = std::move(comp);
                        comp  = std::move(keep);
                    }
                    check_leaf_problem("move assignment of the composition");
                }
                else if (o.kind == "tdfw")
                {
                    // tdfw size array align: the composition is asked to try_deallocate memory none of its leaves
                    // handed out: the answer is false and no leaf took anything back
                    if (!comp->composable)
                        continue;
                    Req r;
                    r.fam   = COMP;
                    r.array = o.arg(1) % 2 && comp->array_ok;
                    r.count = r.array ? 1 + std::size_t(o.arg(1) / 2) % 6 : 1;
                    r.size  = 1 + std::size_t(o.arg(0)) % 300;
                    r.align = std::size_t(1) << (std::size_t(o.arg(2)) % 5);
                    if (comp->fixed_size)
                    {
                        r.size  = comp->fixed_size;
                        r.align = comp->fixed_align;
                    }
                    auto  bytes = r.count * r.size;
                    void* mem   = heap.harness_alloc(bytes, 16, 0);
                    if (!mem)
                        continue;
                    std::memset(mem, 0x3C, bytes);
                    auto n0 = env.log.calls.size();
                    auto t0 = env.track.ev.size();
                    env.log.begin_op(0);
                    heap.begin_op(0);
                    bool ok = comp->dealloc(r, mem);
                    heap.end_op();
                    hash.add(0xD0 + (ok ? 1 : 0));
                    stats().hit("reach.composition_foreign_try_deallocate");
                    if (ok)
                        violate("C08", "foreign_dealloc_accepted", "try_deallocate through the composition returned "
                                                                   "true for memory none of its allocators handed out");
                    for (auto i = n0; i < env.log.calls.size(); ++i)
                        if (env.log.calls[i].ok || env.log.calls[i].is_alloc())
                            violate("C08", "foreign_dealloc_changed_state",
                                    "a refused try_deallocate through the composition %s leaf %d",
                                    env.log.calls[i].is_alloc() ? "made an allocation request to" :
                                                                  "released memory of",
                                    env.log.calls[i].leaf);
                    if (comp->has_tracker && env.track.ev.size() != t0)
                        violate("C08,C09", "tracker_events", "a refused try_deallocate produced %zu tracker event(s)",
                                env.track.ev.size() - t0);
                    for (std::size_t i = 0; i < bytes; ++i)
                        if (static_cast<unsigned char*>(mem)[i] != 0x3C)
                            violate("C08", "foreign_dealloc_changed_state", "a refused try_deallocate wrote into the "
                                                                            "foreign memory");
                    env.log.problem.clear(); // (leaves note refused foreign releases only for the throwing interface)
                    heap.harness_free(mem);
                }
                else if (o.kind == "mx")
                {
                    auto a = comp->max_node(), b = comp->max_array(), c = comp->max_align();
                    hash.add(a ^ (b << 1) ^ (c << 2));
                }
            }
            step = int(plan.ops.size());
            while (!live.empty())
                do_free(live.size() - 1);
            comp.reset();
            for (int i = 0; i < 4; ++i)
                if (!env.leaf[i].live.empty())
                    violate("C09", "leaf_memory_lost", "leaf %d still has %zu allocation(s) after everything "
                                                       "was released",
                            i, env.leaf[i].live.size());
        }
        catch (Violation& v)
        {
            v.step       = step;
            // after a move assignment of the composition everything that goes wrong is also a matter of C12
            bool moved = false;
            for (int k = 0; k <= step && std::size_t(k) < plan.ops.size(); ++k)
                moved = moved || plan.ops[std::size_t(k)].kind == "mvw";
            if (moved && v.prop.find("C12") == std::string::npos)
                v.prop += ",C12";
            res.violated = true;
            res.v        = v;
            for (int i = 0; i < 4; ++i)
                if (env.leaf[i].dynamic_max)
                    res.v.facts += " [leaf " + std::to_string(i) + ": max_node_size() varies with use]";
            comp.release(); // abandon
            heap.end_op();
        }
        res.nontrivial = released_any && live.empty() && (fallback_used || plan.ops.size() >= 4);
    }
} // namespace cs
