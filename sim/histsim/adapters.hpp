// histsim adapters: templates that wrap each library allocator behind hs::Obj.
#pragma once
#include "sut.hpp"
#include "../kernel/simalloc.hpp"

#include <new>
#include <utility>

#include <foonathan/memory/allocator_traits.hpp>
#include <foonathan/memory/iteration_allocator.hpp>
#include <foonathan/memory/memory_arena.hpp>
#include <foonathan/memory/memory_pool.hpp>
#include <foonathan/memory/memory_pool_collection.hpp>
#include <foonathan/memory/memory_stack.hpp>
#include <foonathan/memory/static_allocator.hpp>
#include <foonathan/memory/virtual_memory.hpp>

namespace hs
{
    namespace fm = foonathan::memory;

    //=== block sources ===//
    template <class F>
    void with_storage(void* mem, std::size_t size, F f)
    {
        switch (size)
        {
        case 1024:
            f(*static_cast<fm::static_allocator_storage<1024>*>(mem));
            break;
        case 4096:
            f(*static_cast<fm::static_allocator_storage<4096>*>(mem));
            break;
        case 16384:
            f(*static_cast<fm::static_allocator_storage<16384>*>(mem));
            break;
        case 65536:
            f(*static_cast<fm::static_allocator_storage<65536>*>(mem));
            break;
        default:
            throw std::logic_error("HARNESS: bad storage size");
        }
    }

    template <unsigned Num, unsigned Den>
    struct SrcG // growing_block_allocator over the LIFO-checking simulated raw allocator
    {
        using type = fm::growing_block_allocator<sim::sim_lifo_allocator, Num, Den>;
        static constexpr bool grows = true, faultable = true, bounded = true, unbounded = true;
        template <class T, class... A>
        static T* make(void* slot, const ObjCfg& c, A... a)
        {
            return ::new (slot) T(a..., c.block_size, sim::sim_lifo_allocator(c.owner));
        }
        static int owner(const ObjCfg& c)
        {
            return c.owner;
        }
    };
    struct SrcFX // fixed_block_allocator: one block only
    {
        using type = fm::fixed_block_allocator<sim::sim_lifo_allocator>;
        static constexpr bool grows = false, faultable = true, bounded = true, unbounded = false;
        template <class T, class... A>
        static T* make(void* slot, const ObjCfg& c, A... a)
        {
            return ::new (slot) T(a..., c.block_size, sim::sim_lifo_allocator(c.owner));
        }
        static int owner(const ObjCfg& c)
        {
            return c.owner;
        }
    };
    struct SrcRAW // a plain RawAllocator: the library picks its default block allocator wrapper
    {
        using type = sim::sim_lifo_allocator;
        static constexpr bool grows = true, faultable = true, bounded = true, unbounded = true;
        template <class T, class... A>
        static T* make(void* slot, const ObjCfg& c, A... a)
        {
            return ::new (slot) T(a..., c.block_size, sim::sim_lifo_allocator(c.owner));
        }
        static int owner(const ObjCfg& c)
        {
            return c.owner;
        }
    };
    struct SrcST // static_block_allocator on harness-provided storage inside SimHeap
    {
        using type = fm::static_block_allocator;
        static constexpr bool grows = true, faultable = false, bounded = true, unbounded = false;
        template <class T, class... A>
        static T* make(void* slot, const ObjCfg& c, A... a)
        {
            T* r = nullptr;
            with_storage(c.storage, c.storage_size,
                         [&](auto& st) { r = ::new (slot) T(a..., c.block_size, st); });
            return r;
        }
        static int owner(const ObjCfg&)
        {
            return sim::OWNER_HARNESS;
        }
    };
    struct SrcVB // virtual_block_allocator (mmap/mprotect wrapped into SimHeap)
    {
        using type = fm::virtual_block_allocator;
        static constexpr bool grows = true, faultable = true, bounded = true, unbounded = false;
        template <class T, class... A>
        static T* make(void* slot, const ObjCfg& c, A... a)
        {
            return ::new (slot) T(a..., c.block_size, c.no_blocks);
        }
        static int owner(const ObjCfg&)
        {
            return sim::OWNER_MMAP;
        }
    };
    struct SrcSB // BlockAllocator with an arbitrary size sequence
    {
        using type = sim::sim_block_allocator;
        static constexpr bool grows = true, faultable = true, bounded = true, unbounded = true;
        template <class T, class... A>
        static T* make(void* slot, const ObjCfg& c, A... a)
        {
            return ::new (slot) T(a..., c.block_size, c.owner, c.vary);
        }
        static int owner(const ObjCfg& c)
        {
            return c.owner;
        }
    };
    struct SrcDEF // the library's default_allocator (heap_allocator; malloc is wrapped into SimHeap)
    {
        using type = fm::default_allocator;
        static constexpr bool grows = true, faultable = true, bounded = true, unbounded = true;
        template <class T, class... A>
        static T* make(void* slot, const ObjCfg& c, A... a)
        {
            return ::new (slot) T(a..., c.block_size);
        }
        static int owner(const ObjCfg&)
        {
            return sim::OWNER_MALLOC;
        }
    };

    constexpr std::size_t arena_header = fm::detail::memory_block_stack::implementation_offset();

    //=== common lifecycle part ===//
    template <class T, class Derived>
    class ObjBase : public Obj
    {
    public:
        explicit ObjBase(T* o) : o_(o) {}
        std::size_t object_size() const override
        {
            return sizeof(T);
        }
        const void* address() const override
        {
            return o_;
        }
        Obj* move_construct(void* slot) override
        {
            T*   n = ::new (slot) T(std::move(*o_));
            auto d = new Derived(n);
            d->copy_meta(*this);
            return d;
        }
        void move_assign_from(Obj& other) override
        {
            *o_ = std::move(*static_cast<ObjBase&>(other).o_);
        }
        void swap_with(Obj& other) override
        {
            do_swap(*o_, *static_cast<ObjBase&>(other).o_, 0);
        }
        void destroy() override
        {
            o_->~T();
        }
        void copy_meta(const Obj& from)
        {
            caps   = from.caps;
            owner  = from.owner;
            header = from.header;
            name   = from.name;
        }
        T* o_;

    private:
        template <class U>
        static auto do_swap(U& a, U& b, int) -> decltype(swap(a, b), void())
        {
            swap(a, b);
        }
        template <class U>
        static void do_swap(U& a, U& b, long)
        {
            // no swap() of its own: the generic three-move swap a user would write
            U tmp(std::move(a));
            a = std::move(b);
            b = std::move(tmp);
        }
    };

    //=== memory_pool ===//
    template <class Pool>
    class PoolObj : public ObjBase<Pool, PoolObj<Pool>>
    {
        using traits  = fm::allocator_traits<Pool>;
        using ctraits = fm::composable_allocator_traits<Pool>;
        using ObjBase<Pool, PoolObj<Pool>>::o_;

    public:
        using ObjBase<Pool, PoolObj<Pool>>::ObjBase;

        void* allocate(const Req& r, std::size_t& usable) override
        {
            switch (r.fam)
            {
            case MEMBER:
                if (!r.array)
                {
                    usable = o_->node_size();
                    return o_->allocate_node();
                }
                usable = r.count * o_->node_size();
                return o_->allocate_array(r.count);
            case TRAITS:
                usable = r.array ? r.count * r.size : r.size;
                return r.array ? traits::allocate_array(*o_, r.count, r.size, r.align) :
                                 traits::allocate_node(*o_, r.size, r.align);
            default:
                usable = r.array ? r.count * r.size : r.size;
                if (member_try(r))
                    return r.array ? o_->try_allocate_array(r.count) : o_->try_allocate_node();
                return r.array ? ctraits::try_allocate_array(*o_, r.count, r.size, r.align) :
                                 ctraits::try_allocate_node(*o_, r.size, r.align);
            }
        }
        // a composable request for whole nodes at a supported alignment goes through the pool's own try_ members
        // (which take no size), every other one through composable_allocator_traits
        bool member_try(const Req& r)
        {
            return r.size == o_->node_size() && r.align <= traits::max_alignment(*o_);
        }
        bool deallocate(const Req& r, void* p) override
        {
            switch (r.fam)
            {
            case MEMBER:
                if (!r.array)
                    o_->deallocate_node(p);
                else
                    o_->deallocate_array(p, r.count);
                return true;
            case TRAITS:
                if (!r.array)
                    traits::deallocate_node(*o_, p, r.size, r.align);
                else
                    traits::deallocate_array(*o_, p, r.count, r.size, r.align);
                return true;
            default:
                if (member_try(r))
                    return r.array ? o_->try_deallocate_array(p, r.count) : o_->try_deallocate_node(p);
                return r.array ? ctraits::try_deallocate_array(*o_, p, r.count, r.size, r.align) :
                                 ctraits::try_deallocate_node(*o_, p, r.size, r.align);
            }
        }
        std::size_t max_node() override
        {
            return traits::max_node_size(*o_);
        }
        std::size_t max_array() override
        {
            return traits::max_array_size(*o_);
        }
        std::size_t max_align() override
        {
            return traits::max_alignment(*o_);
        }
        std::size_t reading(int which, std::size_t) override
        {
            switch (which)
            {
            case 0:
                return o_->capacity_left();
            case 1:
                return o_->next_capacity();
            case 4:
                return o_->node_size();
            }
            return 0;
        }
        bool owns(const void* p) override
        {
            return o_->owns(p);
        }
    };

    //=== memory_pool_collection ===//
    template <class Coll>
    class CollObj : public ObjBase<Coll, CollObj<Coll>>
    {
        using traits  = fm::allocator_traits<Coll>;
        using ctraits = fm::composable_allocator_traits<Coll>;
        using ObjBase<Coll, CollObj<Coll>>::o_;

    public:
        using ObjBase<Coll, CollObj<Coll>>::ObjBase;

        void* allocate(const Req& r, std::size_t& usable) override
        {
            usable = r.array ? r.count * r.size : r.size;
            switch (r.fam)
            {
            case MEMBER:
                return r.array ? o_->allocate_array(r.count, r.size) : o_->allocate_node(r.size);
            case TRAITS:
                return r.array ? traits::allocate_array(*o_, r.count, r.size, r.align) :
                                 traits::allocate_node(*o_, r.size, r.align);
            default:
                return r.array ? ctraits::try_allocate_array(*o_, r.count, r.size, r.align) :
                                 ctraits::try_allocate_node(*o_, r.size, r.align);
            }
        }
        bool deallocate(const Req& r, void* p) override
        {
            switch (r.fam)
            {
            case MEMBER:
                if (!r.array)
                    o_->deallocate_node(p, r.size);
                else
                    o_->deallocate_array(p, r.count, r.size);
                return true;
            case TRAITS:
                if (!r.array)
                    traits::deallocate_node(*o_, p, r.size, r.align);
                else
                    traits::deallocate_array(*o_, p, r.count, r.size, r.align);
                return true;
            default:
                return r.array ? ctraits::try_deallocate_array(*o_, p, r.count, r.size, r.align) :
                                 ctraits::try_deallocate_node(*o_, p, r.size, r.align);
            }
        }
        std::size_t max_node() override
        {
            return traits::max_node_size(*o_);
        }
        std::size_t max_array() override
        {
            return traits::max_array_size(*o_);
        }
        std::size_t max_align() override
        {
            return traits::max_alignment(*o_);
        }
        std::size_t reading(int which, std::size_t arg) override
        {
            switch (which)
            {
            case 0:
                return o_->capacity_left();
            case 1:
                return o_->next_capacity();
            case 2:
                return o_->pool_capacity_left(arg);
            }
            return 0;
        }
        void reserve(std::size_t node_size, std::size_t capacity) override
        {
            o_->reserve(node_size, capacity);
        }
    };

    //=== memory_stack ===//
    template <class Stack>
    class StackObj : public ObjBase<Stack, StackObj<Stack>>
    {
        using traits  = fm::allocator_traits<Stack>;
        using ctraits = fm::composable_allocator_traits<Stack>;
        using ObjBase<Stack, StackObj<Stack>>::o_;

    public:
        using ObjBase<Stack, StackObj<Stack>>::ObjBase;

        void* allocate(const Req& r, std::size_t& usable) override
        {
            usable = r.array ? r.count * r.size : r.size;
            switch (r.fam)
            {
            case MEMBER:
                return o_->allocate(usable, r.align);
            case TRAITS:
                return r.array ? traits::allocate_array(*o_, r.count, r.size, r.align) :
                                 traits::allocate_node(*o_, r.size, r.align);
            default:
                return r.array ? ctraits::try_allocate_array(*o_, r.count, r.size, r.align) :
                                 ctraits::try_allocate_node(*o_, r.size, r.align);
            }
        }
        bool deallocate(const Req& r, void* p) override
        {
            switch (r.fam)
            {
            case MEMBER:
                return true; // no individual deallocation
            case TRAITS:
                if (!r.array)
                    traits::deallocate_node(*o_, p, r.size, r.align);
                else
                    traits::deallocate_array(*o_, p, r.count, r.size, r.align);
                return true;
            default:
                return r.array ? ctraits::try_deallocate_array(*o_, p, r.count, r.size, r.align) :
                                 ctraits::try_deallocate_node(*o_, p, r.size, r.align);
            }
        }
        std::size_t max_node() override
        {
            return traits::max_node_size(*o_);
        }
        std::size_t max_array() override
        {
            return traits::max_array_size(*o_);
        }
        std::size_t max_align() override
        {
            return traits::max_alignment(*o_);
        }
        std::size_t reading(int which, std::size_t) override
        {
            return which == 0 ? o_->capacity_left() : which == 1 ? o_->next_capacity() : 0;
        }
        // raii mode: every marker is a memory_stack_raii_unwind object that was handed over once (move construction
        // or move assignment onto a released one); the moved-from object lives on until the next marker operation
        using Unwinder = fm::memory_stack_raii_unwind<Stack>;
        int push_marker() override
        {
            if (raii_)
            {
                husks_.clear(); // destroying a moved-from unwinder must do nothing
                std::unique_ptr<Unwinder> u(new Unwinder(*o_));
                markers_.push_back(u->get_marker());
                std::unique_ptr<Unwinder> k;
                if (markers_.size() % 3 == 2)
                {
                    // assignment onto an unwinder that is still armed (at this very position: it unwinds to where the
                    // stack already is, then takes over)
                    k.reset(new Unwinder(*o_));
                    *k = std::move(*u);
                }
                else if (markers_.size() % 2)
                {
                    k.reset(new Unwinder(*o_));
                    k->release();
                    *k = std::move(*u);
                }
                else
                    k.reset(new Unwinder(std::move(*u)));
                husks_.push_back(std::move(u));
                keepers_.push_back(std::move(k));
                return int(markers_.size()) - 1;
            }
            markers_.push_back(o_->top());
            return int(markers_.size()) - 1;
        }
        void unwind(int i) override
        {
            if (raii_)
            {
                // inner scopes end without unwinding on their own
                while (keepers_.size() > std::size_t(i) + 1)
                {
                    keepers_.back()->release();
                    keepers_.pop_back();
                }
                keepers_[std::size_t(i)]->unwind();
                // the moved-from unwinders go only now, when the stack may stand below the positions they once held:
                // destroying them must do nothing (one that is still armed would unwind to a marker above the top)
                husks_.clear();
                return;
            }
            o_->unwind(markers_[std::size_t(i)]);
        }
        void truncate_markers(int keep) override
        {
            markers_.erase(markers_.begin() + keep, markers_.end());
            while (keepers_.size() > std::size_t(keep))
            {
                keepers_.back()->release();
                keepers_.pop_back();
            }
        }
        void destroy() override
        {
            husks_.clear();
            while (!keepers_.empty())
                keepers_.pop_back(); // innermost first: each unwinds to its marker
            ObjBase<Stack, StackObj<Stack>>::destroy();
        }
        ~StackObj() override
        {
            // (an abandoned object is never destroyed: its unwinders must not run either)
            for (auto& k : keepers_)
                k.release();
            for (auto& h : husks_)
                h.release();
        }
        int compare_markers(int ia, int ib) override
        {
            auto& a  = markers_[std::size_t(ia)];
            auto& b  = markers_[std::size_t(ib)];
            bool  lt = a < b, gt = a > b, eq = a == b, ne = a != b, le = a <= b, ge = a >= b;
            // the six operators must describe one total order
            int n = (lt ? 1 : 0) + (gt ? 1 : 0) + (eq ? 1 : 0);
            if (n != 1 || ne == eq || le != (lt || eq) || ge != (gt || eq))
                return 99;
            return lt ? -1 : gt ? 1 : 0;
        }
        bool top_equals(int i) override
        {
            return o_->top() == markers_[std::size_t(i)];
        }
        void shrink_to_fit() override
        {
            o_->shrink_to_fit();
        }
        Obj* move_construct(void* slot) override
        {
            auto d = static_cast<StackObj*>(ObjBase<Stack, StackObj<Stack>>::move_construct(slot));
            d->markers_ = markers_; // markers describe positions in the blocks, which move with the stack
            return d;
        }
        void move_assign_from(Obj& other) override
        {
            ObjBase<Stack, StackObj<Stack>>::move_assign_from(other);
            markers_ = static_cast<StackObj&>(other).markers_;
        }
        void swap_markers(Obj& other) override
        {
            markers_.swap(static_cast<StackObj&>(other).markers_);
        }

        std::vector<typename Stack::marker>    markers_;
        bool                                   raii_ = false;
        std::vector<std::unique_ptr<Unwinder>> keepers_, husks_;
    };

    //=== iteration_allocator ===//
    template <class It>
    class IterObj : public ObjBase<It, IterObj<It>>
    {
        using traits  = fm::allocator_traits<It>;
        using ctraits = fm::composable_allocator_traits<It>;
        using ObjBase<It, IterObj<It>>::o_;

    public:
        using ObjBase<It, IterObj<It>>::ObjBase;

        void* allocate(const Req& r, std::size_t& usable) override
        {
            usable = r.array ? r.count * r.size : r.size;
            switch (r.fam)
            {
            case MEMBER:
                return o_->allocate(usable, r.align);
            case TRAITS:
                return r.array ? traits::allocate_array(*o_, r.count, r.size, r.align) :
                                 traits::allocate_node(*o_, r.size, r.align);
            default:
                return r.array ? ctraits::try_allocate_array(*o_, r.count, r.size, r.align) :
                                 ctraits::try_allocate_node(*o_, r.size, r.align);
            }
        }
        bool deallocate(const Req& r, void* p) override
        {
            switch (r.fam)
            {
            case MEMBER:
                return true;
            case TRAITS:
                if (!r.array)
                    traits::deallocate_node(*o_, p, r.size, r.align);
                else
                    traits::deallocate_array(*o_, p, r.count, r.size, r.align);
                return true;
            default:
                return r.array ? ctraits::try_deallocate_array(*o_, p, r.count, r.size, r.align) :
                                 ctraits::try_deallocate_node(*o_, p, r.size, r.align);
            }
        }
        std::size_t max_node() override
        {
            return traits::max_node_size(*o_);
        }
        std::size_t max_array() override
        {
            return traits::max_array_size(*o_);
        }
        std::size_t max_align() override
        {
            return traits::max_alignment(*o_);
        }
        std::size_t reading(int which, std::size_t arg) override
        {
            switch (which)
            {
            case 0:
                return o_->capacity_left();
            case 3:
                return o_->capacity_left(arg);
            case 5:
                return o_->cur_iteration();
            }
            return 0;
        }
        void next_iteration() override
        {
            o_->next_iteration();
        }
    };

    //=== memory_arena driven directly ===//
    template <class Arena>
    class ArenaObj : public ObjBase<Arena, ArenaObj<Arena>>
    {
        using ObjBase<Arena, ArenaObj<Arena>>::o_;

    public:
        using ObjBase<Arena, ArenaObj<Arena>>::ObjBase;

        void* allocate(const Req&, std::size_t& usable) override
        {
            auto b = o_->allocate_block();
            usable = b.size;
            return b.memory;
        }
        bool deallocate(const Req&, void*) override
        {
            o_->deallocate_block(); // always the current (most recent) block
            return true;
        }
        std::size_t max_node() override
        {
            return std::size_t(-1);
        }
        std::size_t max_array() override
        {
            return std::size_t(-1);
        }
        std::size_t max_align() override
        {
            return fm::detail::max_alignment;
        }
        std::size_t reading(int which, std::size_t) override
        {
            switch (which)
            {
            case 1:
                return o_->next_block_size();
            case 6:
                return o_->size();
            case 7:
                return o_->cache_size();
            case 8:
                return o_->capacity();
            }
            return 0;
        }
        void shrink_to_fit() override
        {
            o_->shrink_to_fit();
        }
        bool owns(const void* p) override
        {
            return o_->owns(p);
        }
    };

    //=== registration helpers ===//
    template <class Src>
    Caps src_caps(Caps c)
    {
        c.swappable   = true;
        c.grows       = Src::grows;
        c.faultable   = Src::faultable;
        c.bounded_max = Src::bounded;
        c.unbounded   = Src::unbounded;
        return c;
    }

    template <class PoolType, class Src>
    Registrar reg_pool(const std::string& name)
    {
        using T = fm::memory_pool<PoolType, typename Src::type>;
        Caps c;
        c.kind         = K_POOL;
        c.array        = PoolType::value;
        c.frees        = true;
        c.leak_tracked = true;
        c.ordered_nodes =
            std::is_same<typename PoolType::type, fm::detail::ordered_free_memory_list>::value;
        c = src_caps<Src>(c);
        return Registrar(name, sizeof(T), c,
                         [name, c](const ObjCfg& cfg, void* slot) -> Obj*
                         {
                             ObjCfg c2 = cfg;
                             if (cfg.mbs_n)
                                 c2.block_size = T::min_block_size(cfg.node_size, cfg.mbs_n);
                             T*   t = Src::template make<T>(slot, c2, cfg.node_size);
                             auto o = new PoolObj<T>(t);
                             o->caps   = c;
                             o->owner  = Src::owner(cfg);
                             o->header = arena_header;
                             o->name   = name;
                             return o;
                         });
    }

    template <class PoolType, class Buckets, class Src>
    Registrar reg_coll(const std::string& name)
    {
        using T = fm::memory_pool_collection<PoolType, Buckets, typename Src::type>;
        Caps c;
        c.kind         = K_COLL;
        c.array        = PoolType::value;
        c.frees        = true;
        c.leak_tracked = true;
        c.ordered_nodes =
            std::is_same<typename PoolType::type, fm::detail::ordered_free_memory_list>::value;
        c = src_caps<Src>(c);
        return Registrar(name, sizeof(T), c,
                         [name, c](const ObjCfg& cfg, void* slot) -> Obj*
                         {
                             T*   t = Src::template make<T>(slot, cfg, cfg.max_node);
                             auto o = new CollObj<T>(t);
                             o->caps   = c;
                             o->owner  = Src::owner(cfg);
                             o->header = arena_header;
                             o->name   = name;
                             return o;
                         });
    }

    template <class Src>
    Registrar reg_stack(const std::string& name)
    {
        using T = fm::memory_stack<typename Src::type>;
        Caps c;
        c.kind         = K_STACK;
        c.array        = true;
        c.markers      = true;
        c.shrink       = true;
        c.leak_tracked = true;
        c = src_caps<Src>(c);
        return Registrar(name, sizeof(T), c,
                         [name, c](const ObjCfg& cfg, void* slot) -> Obj*
                         {
                             ObjCfg c2 = cfg;
                             if (cfg.mbs_n)
                                 c2.block_size = T::min_block_size(cfg.mbs_n);
                             T*   t = Src::template make<T>(slot, c2);
                             auto o = new StackObj<T>(t);
                             o->caps   = c;
                             if (cfg.raii)
                             {
                                 // the unwinders refer to the stack object: it stays where it is
                                 o->raii_           = true;
                                 o->caps.movable    = false;
                                 o->caps.assignable = false;
                                 o->caps.swappable  = false;
                             }
                             o->owner  = Src::owner(cfg);
                             o->header = arena_header;
                             o->name   = name;
                             return o;
                         });
    }

    template <std::size_t N, class Src>
    Registrar reg_iter(const std::string& name)
    {
        using T = fm::iteration_allocator<N, typename Src::type>;
        Caps c;
        c.kind   = K_ITER;
        c.array  = true;
        c.iter   = true;
        c.n_iter = N;
        c = src_caps<Src>(c);
        c.grows = false; // one block, ever
        return Registrar(name, sizeof(T), c,
                         [name, c](const ObjCfg& cfg, void* slot) -> Obj*
                         {
                             T*   t = Src::template make<T>(slot, cfg);
                             auto o = new IterObj<T>(t);
                             o->caps   = c;
                             o->owner  = Src::owner(cfg);
                             o->header = 0;
                             o->name   = name;
                             return o;
                         });
    }

    template <bool Cached, class Src>
    Registrar reg_arena(const std::string& name)
    {
        using T = fm::memory_arena<fm::make_block_allocator_t<typename Src::type>, Cached>;
        Caps c;
        c.kind      = K_ARENA;
        c.shrink    = Cached;
        c.member    = true;
        c.traits    = false;
        c.comp      = false;
        c.frees     = true;
        c.swappable = true;
        c = src_caps<Src>(c);
        return Registrar(name, sizeof(T), c,
                         [name, c](const ObjCfg& cfg, void* slot) -> Obj*
                         {
                             ObjCfg c2 = cfg;
                             if (cfg.mbs_n)
                                 c2.block_size = T::min_block_size(cfg.mbs_n);
                             T*   t = Src::template make<T>(slot, c2);
                             auto o = new ArenaObj<T>(t);
                             o->caps   = c;
                             o->owner  = Src::owner(cfg);
                             o->header = arena_header;
                             o->name   = name;
                             return o;
                         });
    }
} // namespace hs
