// histsim death cases (C16): after a valid prefix, one client misuse is injected in a forked child and the way
// the child ends is the observation: report through the invalid-pointer handler (state still unchanged), stop
// (abort), or continue as if nothing happened (= missed). Also the exit-time leak reports of the stateless
// low-level allocators (C15): a forked child leaves through exit() and the handler's calls are read from a pipe.
#include "interp.hpp"
#include "../kernel/simalloc.hpp"

#include <algorithm>
#include <csignal>
#include <cstring>
#include <functional>
#include <map>
#include <sys/resource.h>
#include <sys/wait.h>
#include <unistd.h>

#include <foonathan/memory/debugging.hpp>
#include <foonathan/memory/heap_allocator.hpp>
#include <foonathan/memory/malloc_allocator.hpp>
#include <foonathan/memory/memory_arena.hpp>
#include <foonathan/memory/new_allocator.hpp>
#include <foonathan/memory/static_allocator.hpp>
#include <foonathan/memory/virtual_memory.hpp>

using namespace sim;
namespace fm = foonathan::memory;

namespace hs
{
    namespace
    {
        enum Outcome
        {
            O_HANDLER,       // handler called, observable state unchanged
            O_HANDLER_LATE,  // handler called after the state had changed
            O_STOPPED,       // SIGABRT (assertion / unreachable / default handler)
            O_SEGV,          // stopped, but not in a controlled way
            O_CONTINUED,     // the bad call returned
            O_HANG,
            O_OTHER
        };

        std::function<bool()> g_state_unchanged; // child only

        Outcome in_child(const std::function<void()>& body)
        {
            std::fflush(stdout);
            std::fflush(stderr);
            pid_t pid = fork();
            if (pid == 0)
            {
                std::signal(SIGABRT, SIG_DFL);
                std::signal(SIGSEGV, SIG_DFL);
                std::signal(SIGBUS, SIG_DFL);
                std::signal(SIGXCPU, SIG_DFL);
                // "never returns" is judged by the processor time the child uses, not by the wall clock: a loaded
                // machine cannot turn a slow child into a hanging one
                struct rlimit cpu = {2, 4};
                setrlimit(RLIMIT_CPU, &cpu);
                if (!std::getenv("VERIF_TRACE"))
                {
                    if (!freopen("/dev/null", "w", stderr))
                    {
                    }
                }
                fm::set_invalid_pointer_handler(
                    [](const fm::allocator_info&, const void*)
                    { _exit(!g_state_unchanged || g_state_unchanged() ? 42 : 43); });
                body();
                _exit(0);
            }
            if (pid < 0)
                return O_OTHER;
            int status = 0;
            for (int i = 0; i < 12000; ++i) // (a child that sleeps for ever: 60 s of wall clock)
            {
                pid_t r = waitpid(pid, &status, WNOHANG);
                if (r == pid)
                {
                    if (std::getenv("VERIF_TRACE"))
                        std::fprintf(stderr, "CHILD status=0x%x after %d polls\n", status, i);
                    if (WIFEXITED(status))
                    {
                        switch (WEXITSTATUS(status))
                        {
                        case 42:
                            return O_HANDLER;
                        case 43:
                            return O_HANDLER_LATE;
                        case 0:
                            return O_CONTINUED;
                        default:
                            return O_OTHER;
                        }
                    }
                    if (WIFSIGNALED(status) && (WTERMSIG(status) == SIGXCPU || WTERMSIG(status) == SIGKILL))
                        return O_HANG; // 2 s of processor time used up
                    if (WIFSIGNALED(status))
                        return WTERMSIG(status) == SIGABRT ? O_STOPPED : O_SEGV;
                    return O_OTHER;
                }
                usleep(i < 20 ? 200 : 5000);
            }
            kill(pid, SIGKILL);
            waitpid(pid, &status, 0);
            return O_HANG;
        }

        const char* outcome_name(Outcome o)
        {
            switch (o)
            {
            case O_HANDLER:
                return "handler";
            case O_HANDLER_LATE:
                return "handler_after_state_change";
            case O_STOPPED:
                return "stopped";
            case O_SEGV:
                return "stopped_uncontrolled";
            case O_CONTINUED:
                return "continued";
            case O_HANG:
                return "hang";
            default:
                return "other";
            }
        }
    } // namespace

    void Interp::judge_death(int outcome, const char* what)
    {
        auto o = Outcome(outcome);
        stats().hit(std::string("death.") + outcome_name(o));
        {
            // per case family
            std::string w(what);
            auto        colon = w.find(": ");
            std::string fam   = colon == std::string::npos ? w : w.substr(colon + 2);
            auto        paren = fam.find(" (");
            if (paren != std::string::npos)
                fam = fam.substr(0, paren);
            for (auto& ch : fam)
                if (ch == ' ')
                    ch = '_';
            stats().hit("deathcase." + fam.substr(0, 60) + "." + outcome_name(o));
        }
        stats().hit("fault.client_misuse_injected");
        hash_.add(0xDE00 + unsigned(o));
        switch (o)
        {
        case O_HANDLER:
        case O_STOPPED:
            return; // both satisfy the property
        case O_SEGV:
            return; // "or at least stops the program": counted, not raised
        case O_HANDLER_LATE:
            violate("C16", "reported_after_state_change", "%s: the invalid-pointer handler was called, but the "
                                                          "allocator's capacity readings had already changed",
                    what);
        case O_CONTINUED:
            violate("C16", "misuse_not_reported", "%s: the call returned normally, nothing was reported and the "
                                                  "program was not stopped",
                    what);
        case O_HANG:
            violate("C16", "misuse_hangs", "%s: the call neither returned nor reported nor stopped the program "
                                           "within 2 s of processor time",
                    what);
        default:
            violate("C16", "misuse_other", "%s: unexpected end of the child process", what);
        }
    }

    void Interp::op_bad(const Op& op)
    {
        // bad kind pos extra
#if !FOONATHAN_MEMORY_DEBUG_POINTER_CHECK
        (void)op;
        return;
#else
        auto S = live_obj(0);
        if (!S)
            return;
        auto& heap  = SimHeap::get();
        auto& c     = S->o->caps;
        int   kind  = int(op.arg(0)) % 3;
        int   pos   = int(op.arg(1)) % 8;
        bool  small = S->o->name.find(".small.") != std::string::npos;
        int   idx   = 0;
        std::vector<Alloc*> mine;
        shadow_.for_each(
            [&](Alloc& a)
            {
                if (a.obj == idx)
                    mine.push_back(&a);
            });
        auto snapshot = [&]
        {
            std::vector<std::size_t> v;
            snapshot_caps(*S, v);
            v.push_back(S->o->reading(0));
            return v;
        };
        char what[200];
        if (kind == 0)
        {
            // a pointer that is not a node of this small-node pool
            if (c.kind != K_POOL || !small)
                return;
            auto  ns   = S->o->reading(4);
            void* bad  = nullptr;
            char  local[64];
            const char* desc = "";
            if (pos == 5)
            {
                // the address directly behind the last node of the highest chunk: take every free node first (no
                // growth), then the highest live node is the last node of its chunk
                std::snprintf(what, sizeof what, "%s: deallocate_node(the address directly behind the last node of "
                                                 "a chunk)",
                              S->o->name.c_str());
                auto o = in_child(
                    [&]
                    {
                        // (plain calls, no model: only the highest address matters here)
                        char* top = nullptr;
                        shadow_.for_each(
                            [&](Alloc& a)
                            {
                                if (a.obj == 0 && (!top || a.p > top))
                                    top = a.p;
                            });
                        heap.begin_op(0);
                        for (int i = 0; i < 4000 && S->o->reading(0) >= ns; ++i)
                        {
                            Req         r{MEMBER, false, 1, ns, 1};
                            std::size_t usable = 0;
                            auto        p      = static_cast<char*>(S->o->allocate(r, usable));
                            if (p > top)
                                top = p;
                        }
                        if (!top || S->o->reading(0) >= ns)
                            _exit(42); // (nothing to try: nothing to judge)
                        auto before       = snapshot();
                        g_state_unchanged = [&] { return snapshot() == before; };
                        Req r{MEMBER, false, 1, ns, 1};
                        heap.begin_op(0);
                        S->o->deallocate(r, top + ns);
                    });
                judge_death(o, what);
                return;
            }
            switch (pos)
            {
            case 4:
            {
                // inside a live node at an offset that keeps the node's natural alignment (a check that only
                // looks at the alignment of the address cannot tell it from a node)
                std::size_t al = 1;
                while (al < 16 && ns % (al * 2) == 0)
                    al *= 2;
                if (mine.empty() || ns / al < 2)
                    return;
                bad  = mine[std::size_t(op.arg(2)) % mine.size()]->p + al * (1 + std::size_t(op.arg(2)) % (ns / al - 1));
                desc = "an address inside a live node, off the node boundary but aligned like a node";
                break;
            }
            case 0:
                bad  = heap.harness_alloc(64, 16, 2);
                desc = "memory of another allocator";
                break;
            case 1:
                bad  = local + 8;
                desc = "an address on the program stack";
                break;
            case 2:
            {
                auto blocks = heap.blocks_of(S->o->owner);
                if (blocks.empty() || S->o->owner < OWNER_MALLOC)
                    return;
                bad  = heap.at(blocks[std::size_t(op.arg(2)) % blocks.size()].first + arena_header_bytes() + 3);
                desc = "an address inside a chunk header";
                break;
            }
            default:
                if (mine.empty() || ns < 2)
                    return;
                bad  = mine[std::size_t(op.arg(2)) % mine.size()]->p + 1 + std::size_t(op.arg(2)) % (ns - 1);
                desc = "an address inside a live node, off the node boundary";
            }
            if (!bad)
                return;
            std::snprintf(what, sizeof what, "%s: deallocate_node(%s)", S->o->name.c_str(), desc);
            if (std::getenv("VERIF_TRACE"))
            {
                std::fprintf(stderr, "BAD pos=%d off=%zu ns=%zu cap=%zu blocks:", pos, heap.contains(bad) ? heap.off(bad) : 0, ns, S->o->reading(0));
                for (auto& b : heap.blocks_of(S->o->owner))
                    std::fprintf(stderr, " [%zu,%zu)", b.first, b.first + b.second);
                std::fprintf(stderr, "\n");
            }
            auto o = in_child(
                [&]
                {
                    auto before      = snapshot();
                    g_state_unchanged = [&] { return snapshot() == before; };
                    Req r{MEMBER, false, 1, ns, 1};
                    heap.begin_op(0);
                    S->o->deallocate(r, bad);
                });
            judge_death(o, what);
        }
        else if (kind == 1)
        {
#if FOONATHAN_MEMORY_DEBUG_DOUBLE_DEALLOC_CHECK
            // double free, victim chosen by its position in the (sorted) free list
            if (c.kind != K_POOL || mine.size() < 4)
                return;
            std::sort(mine.begin(), mine.end(), [](Alloc* a, Alloc* b) { return a->p < b->p; });
            // single nodes only
            std::vector<Alloc*> nodes;
            for (auto a : mine)
                if (!a->array)
                    nodes.push_back(a);
            if (nodes.size() < 4)
                return;
            // pos 4 / 5: the neighbour (by address) below / above the most recently freed node
            std::size_t pair   = std::size_t(op.arg(2)) % (nodes.size() - 1);
            Alloc*      victim = pos == 0 ? nodes.front() :
                                 pos == 1 ? nodes.back() :
                                 pos == 4 ? nodes[pair] :
                                 pos == 5 ? nodes[pair + 1] :
                                 pos >= 6 ? nodes[std::size_t(op.arg(2)) % nodes.size()] : // any node
                                            nodes[nodes.size() / 2];
            Alloc*      then   = pos == 4 ? nodes[pair + 1] : pos == 5 ? nodes[pair] : nullptr;
            const char* desc   = pos == 0 ? "lowest address" :
                                 pos == 1 ? "highest address" :
                                 pos == 2 ? "most recently freed" :
                                 pos == 4 ? "the neighbour below the most recently freed node" :
                                 pos == 5 ? "the neighbour above the most recently freed node" :
                                 pos >= 6 ? "a node at a drawn position, other nodes freed around it" :
                                            "middle of the free list";
            std::snprintf(what, sizeof what, "%s: second deallocate_node of a node that is already free (%s)",
                          S->o->name.c_str(), desc);
            Alloc v  = *victim;
            Alloc o1 = *nodes[1], o2 = *nodes[nodes.size() - 2];
            if (pos >= 6)
            {
                // (two other nodes at drawn positions are freed between the two frees of the victim)
                o1 = *nodes[std::size_t(op.arg(2) / 7) % nodes.size()];
                o2 = *nodes[std::size_t(op.arg(2) / 53) % nodes.size()];
            }
            Alloc th = then ? *then : v;
            auto  o  = in_child(
                [&]
                {
                    // valid releases first (in the child only)
                    do_free(shadow_.take(v.p));
                    if (then)
                        do_free(shadow_.take(th.p));
                    else if (pos != 2)
                    {
                        if (o1.p != v.p)
                            do_free(shadow_.take(o1.p));
                        if (o2.p != v.p && o2.p != o1.p)
                            do_free(shadow_.take(o2.p));
                    }
                    auto before      = snapshot();
                    g_state_unchanged = [&] { return snapshot() == before; };
                    Req r{v.fam == COMP ? MEMBER : v.fam, false, 1, v.size, v.align};
                    heap.begin_op(0);
                    S->o->deallocate(r, v.p);
                });
            judge_death(o, what);
#endif
        }
        else
        {
            // unwinding to a marker above the current top
            if (c.kind != K_STACK)
                return;
            bool later_block = pos % 2 == 1;
            std::snprintf(what, sizeof what, "%s: unwind to a marker above the current top (%s)",
                          S->o->name.c_str(), later_block ? "in a later block" : "in the same block");
            auto o = in_child(
                [&]
                {
                    heap.begin_op(0);
                    int lo = S->o->push_marker();
                    Req r{MEMBER, false, 1, 8, 1};
                    std::size_t usable;
                    if (later_block)
                    {
                        // enough to need at least one more block
                        auto cap = S->o->reading(0);
                        r.size   = cap / 2 + 1;
                        try
                        {
                            S->o->allocate(r, usable);
                            S->o->allocate(r, usable);
                        }
                        catch (...)
                        {
                            _exit(42); // cannot build the case on this source (fixed): nothing to judge
                        }
                    }
                    else
                    {
                        try
                        {
                            S->o->allocate(r, usable);
                        }
                        catch (...)
                        {
                            _exit(42);
                        }
                    }
                    int hi = S->o->push_marker();
                    S->o->unwind(lo);
                    auto before      = snapshot();
                    g_state_unchanged = [&] { return snapshot() == before; };
                    S->o->unwind(hi);
                });
            judge_death(o, what);
        }
#endif
    }

    void Interp::op_bad_block(const Op& op)
    {
#if !FOONATHAN_MEMORY_DEBUG_POINTER_CHECK
        (void)op;
        return;
#else
        // out-of-order returns to the LIFO-only block sources, second return to the one-block source
        auto& heap = SimHeap::get();
        int   kind = int(op.arg(0)) % 4;
        char  what[160];
        Outcome o;
        switch (kind)
        {
        case 0:
        case 1:
        {
            void* mem = heap.harness_alloc(4096, 16, 2);
            if (!mem)
                return;
            std::snprintf(what, sizeof what, "static_block_allocator: deallocate_block of %s",
                          kind == 0 ? "a block that is not the most recent one" : "a block it never handed out");
            o = in_child(
                [&]
                {
                    auto& st = *static_cast<fm::static_allocator_storage<4096>*>(mem);
                    fm::static_block_allocator a(1024, st);
                    auto b1 = a.allocate_block();
                    auto b2 = a.allocate_block();
                    (void)b2;
                    if (kind == 0)
                        a.deallocate_block(b1);
                    else
                        a.deallocate_block(fm::memory_block(static_cast<char*>(b1.memory) + 2048, 1024));
                });
            heap.harness_free(mem);
            break;
        }
        case 2:
            std::snprintf(what, sizeof what, "virtual_block_allocator: deallocate_block of a block that is not the "
                                             "most recent one");
            o = in_child(
                [&]
                {
                    heap.begin_op(0);
                    fm::virtual_block_allocator a(4096, 3);
                    auto b1 = a.allocate_block();
                    auto b2 = a.allocate_block();
                    (void)b2;
                    a.deallocate_block(b1);
                });
            break;
        default:
            std::snprintf(what, sizeof what, "fixed_block_allocator: second deallocate_block of its one block");
            o = in_child(
                [&]
                {
                    heap.begin_op(0);
                    fm::fixed_block_allocator<sim::sim_raw_allocator> a(256, sim::sim_raw_allocator(90));
                    auto b = a.allocate_block();
                    a.deallocate_block(b);
                    a.deallocate_block(b);
                });
        }
        judge_death(o, what);
#endif
    }

    std::size_t Interp::arena_header_bytes()
    {
        return fm::detail::memory_block_stack::implementation_offset();
    }

    //=== C15: exit-time reports of the stateless low-level allocators ===//
    namespace
    {
        int g_exit_fd = -1;
    }

    RunResult run_exit_leak(const Plan& plan)
    {
        RunResult res;
        RunHash   hash;
        int       fds[2];
        if (pipe(fds) != 0)
        {
            res.skip = "pipe failed";
            return res;
        }
        // what the child will leave behind, per allocator: (count, bytes)
        struct Left
        {
            std::size_t n = 0, bytes = 0;
        } left[4];
        const char* names[4] = {"heap_allocator", "malloc_allocator", "new_allocator",
                                "virtual_memory_allocator"};
        std::fflush(stdout);
        std::fflush(stderr);
        pid_t pid = fork();
        if (pid == 0)
        {
            close(fds[0]);
            g_exit_fd = fds[1];
            if (!freopen("/dev/null", "w", stderr))
            {
            }
            fm::set_leak_handler(
                [](const fm::allocator_info& info, std::ptrdiff_t amount)
                {
                    char buf[160];
                    int  n = std::snprintf(buf, sizeof buf, "LEAK %s %td\n", info.name, amount);
                    if (write(g_exit_fd, buf, std::size_t(n)) < 0)
                    {
                    }
                });
            SimHeap::get().reset(0, false, false, (std::uint64_t)plan.num("hseed", 1));
            SimHeap::get().begin_op(0); // libc wrapped into SimHeap for the rest of the process life
            fm::heap_allocator           ha;
            fm::malloc_allocator         ma;
            fm::new_allocator            na;
            fm::virtual_memory_allocator va;
            struct L
            {
                int         which;
                void*       p;
                std::size_t size;
            };
            std::vector<L> live;
            for (auto& o : plan.ops)
            {
                if (o.kind == "xa")
                {
                    int         w    = int(o.arg(0)) % 4;
                    std::size_t size = 1 + std::size_t(o.arg(1)) % 3000;
                    void*       p    = w == 0 ? ha.allocate_node(size, 8) :
                                       w == 1 ? ma.allocate_node(size, 8) :
                                       w == 2 ? na.allocate_node(size, 8) :
                                                va.allocate_node(size, 8);
                    std::memset(p, 0x77, size);
                    live.push_back({w, p, size});
                }
                else if (o.kind == "xx")
                {
                    // a request the upstream refuses (far above what it hands out at once): it fails, and a failed
                    // request must not stay in the books
                    int         w    = int(o.arg(0)) % 4;
                    std::size_t size = (std::size_t(300) << 10) + std::size_t(o.arg(1)) % 5000;
                    try
                    {
                        void* p = w == 0 ? ha.allocate_node(size, 8) :
                                  w == 1 ? ma.allocate_node(size, 8) :
                                  w == 2 ? na.allocate_node(size, 8) :
                                           va.allocate_node(size, 8);
                        live.push_back({w, p, size}); // (served after all: then it counts like any other)
                    }
                    catch (const std::bad_alloc&)
                    {
                    }
                }
                else if (o.kind == "xf" && !live.empty())
                {
                    auto i = std::size_t(o.arg(0)) % live.size();
                    auto l = live[i];
                    live.erase(live.begin() + (long)i);
                    switch (l.which)
                    {
                    case 0:
                        ha.deallocate_node(l.p, l.size, 8);
                        break;
                    case 1:
                        ma.deallocate_node(l.p, l.size, 8);
                        break;
                    case 2:
                        na.deallocate_node(l.p, l.size, 8);
                        break;
                    default:
                        va.deallocate_node(l.p, l.size, 8);
                    }
                }
            }
            std::string s = "LEFT";
            for (auto& l : live)
                s += " " + std::to_string(l.which) + ":" + std::to_string(l.size);
            s += "\n";
            if (write(g_exit_fd, s.c_str(), s.size()) < 0)
            {
            }
            std::exit(0); // static destruction: the global leak checkers report now
        }
        close(fds[1]);
        std::string out;
        char        buf[512];
        ssize_t     n;
        while ((n = read(fds[0], buf, sizeof buf)) > 0)
            out.append(buf, std::size_t(n));
        close(fds[0]);
        int status = 0;
        waitpid(pid, &status, 0);
        auto bad = [&](const char* cls, const std::string& facts)
        {
            res.violated = true;
            res.v.prop   = "C15";
            res.v.cls    = cls;
            res.v.facts  = facts;
        };
        if (!WIFEXITED(status) || WEXITSTATUS(status) != 0)
        {
            bad("exit_crash", "the child did not leave through a normal exit");
            return res;
        }
        // parse
        std::map<std::string, std::vector<long>> reports;
        std::size_t                               pos = 0;
        bool                                      have_left = false;
        while (pos < out.size())
        {
            auto e    = out.find('\n', pos);
            auto line = out.substr(pos, e - pos);
            pos       = e == std::string::npos ? out.size() : e + 1;
            if (line.compare(0, 5, "LEAK ") == 0)
            {
                auto sp = line.rfind(' ');
                reports[line.substr(5, sp - 5)].push_back(std::atol(line.c_str() + sp + 1));
            }
            else if (line.compare(0, 4, "LEFT") == 0)
            {
                have_left = true;
                std::size_t p2 = 4;
                while (p2 < line.size())
                {
                    int         w  = 0;
                    std::size_t sz = 0;
                    if (std::sscanf(line.c_str() + p2, " %d:%zu", &w, &sz) != 2)
                        break;
                    left[w].n++;
                    left[w].bytes += sz;
                    p2 = line.find(' ', p2 + 1);
                    if (p2 == std::string::npos)
                        break;
                }
            }
        }
        if (!have_left)
        {
            bad("exit_crash", "the child died before reaching exit");
            return res;
        }
        const bool leak_check = FOONATHAN_MEMORY_DEBUG_LEAK_CHECK;
        for (int w = 0; w < 4; ++w)
        {
            std::string full = std::string("foonathan::memory::") + names[w];
            auto&       r    = reports[full];
            hash.add(left[w].n * 7919 + left[w].bytes);
            char b[240];
            if (!leak_check)
            {
                if (!r.empty())
                {
                    std::snprintf(b, sizeof b, "%s reported a leak although leak checking is disabled", names[w]);
                    bad("leak_report_spurious", b);
                    return res;
                }
                continue;
            }
            if (left[w].n == 0)
            {
                if (!r.empty())
                {
                    std::snprintf(b, sizeof b, "%s: nothing left allocated at exit, the handler was called with %ld",
                                  names[w], r[0]);
                    bad("leak_report_spurious", b);
                    return res;
                }
                continue;
            }
            if (r.size() != 1)
            {
                std::snprintf(b, sizeof b, "%s: %zu allocation(s) with %zu bytes left at exit, the handler was "
                                           "called %zu time(s)",
                              names[w], left[w].n, left[w].bytes, r.size());
                bad(r.empty() ? "leak_report_missing" : "leak_report_repeated", b);
                return res;
            }
            // the amount may include the fence overhead, which the property does not specify
            long lo = long(left[w].bytes), hi = long(left[w].bytes + left[w].n * 2 * 16);
            if (r[0] < lo || r[0] > hi)
            {
                std::snprintf(b, sizeof b, "%s: %zu bytes in %zu allocation(s) left at exit, the handler "
                                           "reported %ld",
                              names[w], left[w].bytes, left[w].n, r[0]);
                bad("leak_report_wrong", b);
                return res;
            }
            stats().hit("reach.exit_leak_reported");
        }
        stats().hit("reach.exit_checked");
        res.hash       = hash.h;
        res.ops        = plan.ops.size();
        res.nontrivial = left[0].n + left[1].n + left[2].n + left[3].n > 0;
        return res;
    }
} // namespace hs
