// histsim plan generator: turns (profile, seed) into an explicit plan. Swarm style: every knob is drawn per run.
#include "gen.hpp"

#include "../kernel/rng.hpp"
#include "../kernel/simheap.hpp"

#include <foonathan/memory/memory_pool.hpp>
#include <foonathan/memory/memory_pool_collection.hpp>

#include <algorithm>
#include <cstring>

using namespace sim;
namespace fm = foonathan::memory;

namespace hs
{
    namespace
    {
        struct Sel
        {
            std::vector<std::string> names;
            void add(std::initializer_list<const char*> l)
            {
                for (auto s : l)
                    names.push_back(s);
            }
        };

        const char* POOLS[] = {"pool.node.G2",   "pool.array.G2",  "pool.small.G2", "pool.node.G32",
                               "pool.array.G32", "pool.small.G32", "pool.node.FX",  "pool.array.FX",
                               "pool.small.FX",  "pool.node.ST",   "pool.array.ST", "pool.small.ST",
                               "pool.node.VB",   "pool.array.VB",  "pool.small.VB", "pool.node.SB",
                               "pool.array.SB",  "pool.small.SB",  "pool.node.DEF", "pool.array.DEF",
                               "pool.small.DEF"};
        const char* COLLS[] = {"coll.node.id.G2",    "coll.array.id.G2",    "coll.small.id.G2",
                               "coll.node.log2.G2",  "coll.array.log2.G2",  "coll.small.log2.G2",
                               "coll.node.id.FX",    "coll.array.id.FX",    "coll.small.id.FX",
                               "coll.node.log2.FX",  "coll.array.log2.FX",  "coll.small.log2.FX",
                               "coll.node.id.ST",    "coll.array.id.ST",    "coll.small.id.ST",
                               "coll.node.log2.ST",  "coll.array.log2.ST",  "coll.small.log2.ST",
                               "coll.node.id.DEF",   "coll.array.id.DEF",   "coll.small.id.DEF",
                               "coll.node.log2.DEF", "coll.array.log2.DEF", "coll.small.log2.DEF"};
        const char* STACKS[] = {"stack.G2", "stack.G32", "stack.G1", "stack.FX", "stack.ST",
                                "stack.VB", "stack.SB",  "stack.DEF", "stack.RAW"};
        const char* ITERS[]  = {"iter1.RAW", "iter2.RAW", "iter3.RAW", "iter4.RAW", "iter5.RAW",
                                "iter2.ST",  "iter3.ST",  "iter2.DEF", "iter3.G2",  "iter4.VB"};
        const char* ARENAS[] = {"arena.c.G2", "arena.u.G2", "arena.c.FX", "arena.u.FX",
                                "arena.c.ST", "arena.u.ST", "arena.c.VB", "arena.u.VB",
                                "arena.c.SB", "arena.u.SB", "arena.c.DEF"};
        const char* LOWS[]   = {"ll.heap", "ll.malloc", "ll.new", "ll.virtual"};

        template <std::size_t N>
        std::string pick(Rng& r, const char* (&a)[N])
        {
            return a[r.below(N)];
        }

        bool has(const std::string& s, const char* sub)
        {
            return s.find(sub) != std::string::npos;
        }

        std::size_t round16(std::size_t v)
        {
            return (v + 15) / 16 * 16;
        }

        // choose parameters of object `sfx` ("" or "2") for SUT `sut`
        void draw_params(Rng& r, Plan& p, const std::string& sut, const std::string& sfx, bool small_blocks)
        {
            bool st = has(sut, ".ST"), vb = has(sut, ".VB");
            std::size_t want = 0; // wanted block size before source constraints
            if (has(sut, "pool."))
            {
                bool        small = has(sut, ".small.");
                std::size_t ns    = small ? r.size_biased(1, 24) : r.size_biased(1, r.chance(1, 6) ? 300 : 72);
                p.set("node_size" + sfx, (long long)ns);
                std::size_t mb = small ? fm::memory_pool<fm::small_node_pool>::min_block_size(ns, 1) :
                                         fm::memory_pool<fm::node_pool>::min_block_size(ns, 1);
                if (small)
                {
                    // one chunk, sometimes a bit more than one or two chunks (the 255/256 node edge)
                    switch (r.below(ns <= 8 ? 5 : 4))
                    {
                    case 4:
                        // several chunks in one block (3..6 x 255 nodes and a remainder)
                        want = fm::memory_pool<fm::small_node_pool>::min_block_size(ns, 255 * r.range(3, 6) + r.below(200));
                        break;
                    case 0:
                        want = mb;
                        break;
                    case 1:
                        want = mb + r.below(4 * ns + 40);
                        break;
                    case 2:
                        want = 2 * mb + r.below(64);
                        break;
                    default:
                        want = 16 + 16 + ns * r.range(1, 60) + r.below(ns); // partial chunk
                        if (want < 16 + 16 + ns)
                            want = 16 + 16 + ns;
                        // documented minimum
                        if (want < mb)
                            want = mb;
                    }
                }
                else
                {
                    auto eff = ns < 8 ? 8 : ns;
                    want     = 16 + eff * r.range(small_blocks ? 1 : 2, small_blocks ? 12 : 40) + r.below(eff);
                    if (want < mb)
                        want = mb;
                }
                want = round16(want) + (r.chance(1, 4) ? 0 : 0);
            }
            else if (has(sut, "coll."))
            {
                bool        small = has(sut, ".small."), lg = has(sut, ".log2.");
                // at least two buckets: with a single one the default reservation is a whole block, which no
                // block can serve once fences are added (under-specified precondition, stricter reading taken)
                std::size_t mx = lg ? r.pick<std::size_t>({9, 16, 24, 32, 64, 100, 128, 256, 512}) :
                                      r.size_biased(9, 48);
                p.set("max_node" + sfx, (long long)mx);
                std::size_t buckets;
                if (lg)
                {
                    std::size_t lc = 0;
                    while ((std::size_t(1) << lc) < mx)
                        ++lc;
                    buckets = small ? lc + 1 : lc - 3 + 1;
                }
                else
                    buckets = small ? mx : mx - 8 + 1;
                auto real_max = lg ? (std::size_t(1) << (buckets - 1 + (small ? 0 : 3))) : mx;
                want = 64 * buckets + 2 * buckets * (real_max + 16) + 64 + r.below(small_blocks ? 256 : 2048);
                // (mostly a multiple of 16; sometimes not, so that the end of the block is not max-aligned)
                if (!r.chance(1, 3))
                    want = round16(want);
            }
            else if (has(sut, "stack."))
            {
                want = r.chance(3, 4) ? r.range(96, 640) : r.range(64, 4096);
                if (!r.chance(1, 3))
                    want = round16(want);
            }
            else if (has(sut, "iter"))
            {
                std::size_t n = std::size_t(sut[4] - '0');
                want          = r.range(48 * n + 8, 3000);
            }
            else if (has(sut, "arena."))
                want = round16(r.range(48, 2048));
            else if (sut == "static")
                want = 0;
            else if (sut == "temp")
                want = r.range(96, 2048);
            else
                want = 256;

            if (st || sut == "static")
            {
                // storage size fixed by the template argument; block size must divide it
                std::size_t sizes[] = {1024, 4096, 16384, 65536};
                std::size_t storage = 65536;
                for (auto s : sizes)
                    if (s >= want && r.chance(2, 3))
                    {
                        storage = s;
                        break;
                    }
                if (storage < want)
                    storage = 65536;
                std::size_t k = 1;
                while (storage / (k * 2) >= want && storage / (k * 2) >= 64 && k < 32 && r.chance(3, 4))
                    k *= 2;
                p.set("storage_size" + sfx, (long long)storage);
                p.set("block_size" + sfx, (long long)(storage / k));
            }
            else if (vb)
            {
                std::size_t bs = (want + 4095) / 4096 * 4096;
                p.set("block_size" + sfx, (long long)bs);
                p.set("no_blocks" + sfx, (long long)r.range(1, 5));
            }
            else
            {
                p.set("block_size" + sfx, (long long)want);
                if (has(sut, ".SB"))
                    p.set("vary" + sfx, (long long)(r.chance(2, 3) ? r.range(1, 1000000) : 0));
            }
        }
    } // namespace

    Plan generate(const std::string& profile_in, std::uint64_t seed)
    {
        Rng         r(seed);
        Plan        p;
        std::string profile = profile_in;
        bool        thorough = false;
        auto        dot      = profile.find('.');
        if (dot != std::string::npos)
        {
            thorough = profile.substr(dot + 1) == "thorough";
            profile  = profile.substr(0, dot);
        }
        p.set("profile", profile);
        p.set("seed", (long long)seed);
        p.set("hseed", (long long)(r.next() >> 2));

        if (profile == "C15X")
        {
            // exit-time reports of the low-level allocators: a child process allocates, frees, leaves some, exits
            p.set("mode", "exitleak");
            std::size_t n = r.range(0, 30);
            unsigned    alloc_mask = unsigned(r.range(1, 15)); // which of the four allocators are used at all
            for (std::size_t i = 0; i < n; ++i)
            {
                if (r.chance(3, 5))
                {
                    int w = int(r.below(4));
                    if (!(alloc_mask & (1u << w)))
                        continue;
                    if (r.chance(1, 8))
                        p.add("xx", {w, (long long)r.below(5000)}); // a request the upstream refuses
                    else
                    p.add("xa", {w, (long long)r.size_biased(0, 2999)});
                }
                else
                    p.add("xf", {(long long)r.below(100)});
            }
            if (r.chance(1, 3)) // balanced: everything returned
                for (std::size_t i = 0; i < n; ++i)
                    p.add("xf", {0});
            return p;
        }

        //--- which SUT ---
        std::string sut;
        auto any_user = [&]() -> std::string
        {
            switch (r.below(10))
            {
            case 0:
            case 1:
            case 2:
                return pick(r, POOLS);
            case 3:
            case 4:
            case 5:
                return pick(r, COLLS);
            case 6:
            case 7:
                return pick(r, STACKS);
            case 8:
                return pick(r, ITERS);
            default:
                return r.chance(1, 3) ? std::string("temp") : r.chance(1, 2) ? pick(r, LOWS) : std::string("static");
            }
        };
        if (profile == "C04")
            sut = r.chance(1, 2) ? pick(r, POOLS) : pick(r, COLLS);
        else if (profile == "C05")
            sut = r.chance(1, 8) ? std::string("temp") : r.chance(1, 2) ? pick(r, ARENAS) : any_user();
        else if (profile == "C06")
            sut = r.chance(1, 8) ? std::string("temp") : pick(r, STACKS);
        else if (profile == "C07")
            sut = pick(r, ITERS);
        else if (profile == "C14H") // the single-thread life of a temporary_allocator nest on an explicit stack
            sut = "temp";
        else if (profile == "C08")
        {
            switch (r.below(6))
            {
            case 0:
            case 1:
                sut = pick(r, POOLS);
                break;
            case 2:
            case 3:
                sut = pick(r, COLLS);
                break;
            case 4:
                sut = pick(r, STACKS);
                break;
            default:
                sut = pick(r, ITERS);
            }
        }
        else if (profile == "C15")
            sut = r.chance(2, 5) ? pick(r, POOLS) : r.chance(1, 2) ? pick(r, COLLS) : pick(r, STACKS);
        else if (profile == "C12")
            sut = r.chance(1, 5) ? pick(r, ARENAS) : any_user();
        else if (profile == "C18")
        {
            sut = r.chance(1, 8) ? pick(r, ARENAS) : any_user();
            if (sut.compare(0, 3, "ll.") == 0)
                sut = pick(r, POOLS);
        }
        else if (profile == "C03")
            sut = r.chance(1, 6) ? pick(r, ARENAS) : any_user(); // arenas: block sources retried after a failure
        else if (profile == "C16")
        {
            // pools (small: foreign / misplaced pointers; all: double free) and stacks (bad markers)
            switch (r.below(3))
            {
            case 0:
                sut = r.pick<const char*>({"pool.small.G2", "pool.small.FX", "pool.small.ST", "pool.small.DEF",
                                           "pool.small.G32", "pool.small.VB"});
                break;
            case 1:
                sut = pick(r, POOLS);
                break;
            default:
                sut = pick(r, STACKS);
            }
        }
        else if (profile == "C17") // half: low-level allocators with fence corruption; half: fill patterns anywhere
            sut = r.chance(1, 2) ? pick(r, LOWS) : any_user();
        else
            sut = any_user();
        p.set("sut", sut);

        bool is_temp = sut == "temp";
        bool is_pool = has(sut, "pool."), is_coll = has(sut, "coll."), is_stack = has(sut, "stack.") || is_temp,
             is_iter = has(sut, "iter"), is_arena = has(sut, "arena."), is_ll = sut.compare(0, 3, "ll.") == 0, // (not has(): "coll." contains "ll.")
             is_static = sut == "static";
        bool arrays    = !has(sut, ".small.") && !is_arena;
        bool faultable = !has(sut, ".ST") && !is_static;

        //--- environment ---
        int place = int(r.below(PLACE_COUNT));
        if (profile == "C08" && r.chance(2, 3))
            place = r.chance(1, 2) ? PLACE_ADJ_ASC : PLACE_ADJ_DESC;
        p.set("place", place);
        p.set("minalign", r.chance(1, 3) ? 1 : 0);
        p.set("slot", (long long)r.below(3));
        p.set("slot2", (long long)r.below(3));
        p.set("end", (long long)r.below(4));
        if (has(sut, "stack.") && r.chance(1, profile == "C06" ? 3 : 8))
            p.set("raii", 1); // markers are memory_stack_raii_unwind objects

        bool small_blocks = r.chance(1, 2);
        draw_params(r, p, sut, "", small_blocks);
        bool two = profile == "C08" || profile == "C12" || r.chance(1, 5);
        if (two)
            draw_params(r, p, sut, "2", small_blocks);

        //--- faults ---
        bool faulting = faultable
                        && ((profile == "C03" || profile == "C05") ? r.chance(2, 3) :
                            (profile == "C04" || profile == "C18" || profile == "C06" || profile == "C07"
                             || profile == "C15" || profile == "C08") ?
                                                                     r.chance(1, 6) :
                                                                     r.chance(1, 3));
        unsigned fault_pct = faulting ? unsigned(r.pick<unsigned>({3, 6, 12, 25})) : 0;
        if (faulting && r.chance(1, 12))
            p.set("make_fail", (long long)r.range(1, 2));
        p.set("faulting", faulting ? 1 : 0);

        //--- C18: min_block_size mode ---
        bool mbs = false;
        if (profile == "C18" && (is_pool || is_stack || is_arena) && !is_temp && !has(sut, ".ST") && !has(sut, ".VB")
            && r.chance(1, 3))
        {
            mbs = true;
            if (is_pool)
            {
                // fixed source: no growth possible, n nodes must fit
                p.set("sut", std::string(sut.substr(0, sut.rfind('.'))) + ".FX");
                sut = p.get("sut");
                // node sizes 1..512 (small-node pools 1..200), counts up to 2000 as far as the one block stays below
                // what the simulated upstream hands out at once
                if (r.chance(1, 2))
                    p.set("node_size", (long long)r.size_biased(1, has(sut, ".small.") ? 200 : 512));
                auto        ns  = std::size_t(p.num("node_size", 8));
                std::size_t top = 200000 / (ns < 8 ? 8 : ns);
                if (top > 2000)
                    top = 2000;
                p.set("mbs_n", (long long)r.size_biased(1, r.chance(1, 3) ? top : (top < 300 ? top : 300)));
                if (has(sut, ".small.") && r.chance(1, 2))
                {
                    // small-node pools are made of chunks of 255 nodes: counts that fill k chunks (almost) exactly
                    auto n = 255 * r.range(1, 7);
                    n -= r.below(4);
                    p.set("mbs_n", (long long)(n > top ? top : n));
                }
            }
            else
                p.set("mbs_n", (long long)r.size_biased(1, 2000));
            p.add("mbs", {0});
        }

        //--- op mix (swarm: some kinds are switched off per run) ---
        std::size_t len = thorough ? r.range(60, 400) : r.range(20, 120);
        if (mbs)
            len = r.range(0, 30);
        unsigned w_an = 40, w_aa = arrays ? (r.chance(1, 4) ? 0u : 14u) : 0u, w_fr = 34, w_frall = 2,
                 w_top = 0, w_unw = 0, w_next = 0, w_shrink = 0, w_mv = 0, w_mva = 0, w_swp = 0,
                 w_mk2 = 0, w_ds = 0, w_dhusk = 0, w_over = 1, w_cap = 0, w_cycle = 0, w_rsv = 0,
                 w_tdf = 0, w_cor = 0, w_tdfx = 0;
        if (is_stack)
        {
            w_top    = 12;
            w_unw    = 10;
            w_shrink = r.chance(1, 2) ? 3 : 0;
            w_fr     = 4;
            w_frall  = 0;
        }
        if (is_iter)
        {
            w_next  = r.pick<unsigned>({6, 15, 30});
            w_fr    = 8; // (does nothing, but is a legal call; the composable form says whether the memory is its own)
            w_frall = 0;
        }
        if (is_static)
            w_fr = w_frall = 0;
        if (is_arena)
        {
            w_aa     = 0;
            w_over   = 0;
            w_shrink = 8;
            w_frall  = 0;
        }
        if (is_pool || is_coll)
        {
            w_cap   = (profile == "C04") ? 6 : 1;
            w_cycle = (profile == "C04") ? 4 : (r.chance(1, 3) ? 1 : 0);
            if (is_coll)
                w_rsv = r.chance(1, 2) ? 2 : 0;
        }
        bool moves = profile == "C12" || profile == "C15" || profile == "C05" || r.chance(1, 4);
        if (moves)
        {
            unsigned m = profile == "C12" ? 6 : 2;
            w_mv       = m;
            w_dhusk    = m / 2 + 1;
            if (two)
            {
                w_mva = m;
                w_swp = m;
                w_mk2 = m;
                w_ds  = 1;
            }
        }
        if (two && !moves)
        {
            w_mk2 = 2;
            w_ds  = r.chance(1, 3) ? 1 : 0;
        }
        if (profile == "C08")
        {
            w_tdf  = 25;
            w_tdfx = 12;
            w_mk2  = 6;
        }
        if (profile == "C03" || profile == "C18")
            w_over = 5;
        if (profile == "C17" && is_ll)
        {
            w_cor = 14;
            if (r.chance(1, 10))
                p.add("corsweep", {0, (long long)r.below(6), (long long)r.below(2)});
        }
        if (profile == "C06" || profile == "C14H")
        {
            w_top = 14;
            w_unw = 14;
        }
        // family mix
        unsigned fam_w[3] = {r.chance(1, 5) ? 0u : 3u, r.chance(1, 5) ? 0u : 3u,
                             (is_ll || is_static || is_arena) ? 0u : (r.chance(1, 3) ? 0u : 2u)};
        if (profile == "C15")
        {
            fam_w[0] = 1;
            fam_w[1] = 6;
            fam_w[2] = r.chance(1, 2) ? 2 : 0; // (the composable family books nothing in and nothing out)
        }
        if (profile == "C08")
            fam_w[2] = 6;
        if (!fam_w[0] && !fam_w[1] && !fam_w[2])
            fam_w[1] = 1;

        std::size_t target = r.range(2, 40), live = 0;
        bool        have2 = false;
        std::size_t markers = 0;
        auto        fault   = [&]() -> int
        {
            if (!fault_pct || r.below(100) >= fault_pct)
                return 0;
            return r.chance(1, 5) ? 2 : 1;
        };
        auto obj = [&]() -> long long { return have2 && r.chance(1, 3) ? 1 : 0; };

        for (std::size_t i = 0; i < len; ++i)
        {
            if (r.chance(1, 16))
                target = r.chance(1, 4) ? 0 : r.range(1, 60);
            bool grow = live < target ? r.chance(3, 4) : r.chance(1, 4);
            unsigned w[] = {grow ? w_an : w_an / 4,
                            grow ? w_aa : w_aa / 4,
                            grow ? w_fr / 3 : w_fr,
                            w_frall,
                            w_top,
                            markers ? w_unw : 0,
                            w_next,
                            w_shrink,
                            w_mv,
                            have2 ? w_mva : 0,
                            have2 ? w_swp : 0,
                            have2 ? 0 : w_mk2,
                            have2 ? w_ds : 0,
                            w_dhusk,
                            w_over,
                            w_cap,
                            w_cycle,
                            w_rsv,
                            have2 ? w_tdf : 0,
                            w_cor,
                            w_tdfx};
            auto fam = (long long)r.weighted(fam_w, 3);
            switch (r.weighted(w, sizeof w / sizeof *w))
            {
            case 0:
                if ((is_stack || is_iter || is_static) && !is_temp && fam != 2 && r.chance(1, 12))
                {
                    p.add("fill", {obj(), fam});
                    ++live;
                    break;
                }
                if (is_coll && r.chance(1, 40))
                {
                    p.add("drain", {(long long)(obj() + 2 * r.below(600)), (long long)r.below(2)});
                    live += 20;
                    break;
                }
                if (sut == "ll.new" && r.chance(1, 12))
                {
                    // operator new without memory, a std::new_handler that frees some / removes itself
                    p.add("nh", {obj(), (long long)r.below(3), (long long)r.below(200), (long long)r.below(2)});
                    break;
                }
                if (is_ll && r.chance(1, 15))
                {
                    p.add("an", {obj(), fam, 0, (long long)r.pick({0, 0, 1, 2, 3, 4}), 1}, fault()); // size 0
                    ++live;
                    break;
                }
                if ((is_pool || is_coll) && r.chance(1, 10))
                    p.add("an", {obj(), fam, (long long)r.size_biased(0, 4000), (long long)r.pick({0, 0, 1, 2, 3}), 1},
                          fault()); // exactly at the limit
                else
                p.add("an", {obj(), fam, (long long)r.size_biased(0, 4000), (long long)r.pick({0, 0, 1, 2, 3, 3, 4, 4, 5, 6, 8, 12})},
                      fault());
                ++live;
                break;
            case 1:
                if (is_pool && r.chance(1, 12))
                    p.add("aa", {obj(), fam, 0, (long long)r.size_biased(0, 4000), (long long)r.pick({0, 0, 1, 2, 3}), 1},
                          fault()); // exactly max_array_size()
                else
                p.add("aa", {obj(), fam, (long long)r.size_biased(0, 39), (long long)r.size_biased(0, 4000),
                             (long long)r.pick({0, 0, 1, 2, 3, 3, 4, 4, 5})},
                      fault());
                ++live;
                break;
            case 2:
            {
                // position classes: most recent, oldest, random
                long long v = r.chance(1, 4) ? (long long)(live ? live - 1 : 0) :
                              r.chance(1, 5) ? 0 :
                                               (long long)r.below(1000);
                p.add("fr", {v});
                if (live)
                    --live;
                break;
            }
            case 3:
                p.add("frall", {obj(), (long long)r.below(1000)});
                live = 0;
                if (w_cap && r.chance(1, 2))
                    p.add("checkcap", {0});
                break;
            case 4:
                p.add("top", {obj()});
                ++markers;
                break;
            case 5:
                p.add("unw", {obj(), r.chance(1, 2) ? (long long)(markers - 1) : (long long)r.below(16),
                              (long long)r.below(2)});
                markers = markers ? markers - (r.chance(1, 2) ? 1 : 0) : 0;
                live    = live / 2;
                break;
            case 6:
                p.add("next", {obj()});
                break;
            case 7:
                p.add("shrink", {obj(), r.chance(1, 3) ? (long long)r.below(4) : 0});
                break;
            case 8:
                if (is_pool && r.chance(1, 4))
                    p.add("drain", {obj(), (long long)r.below(2)});
                p.add("mv", {obj(), (long long)r.below(3)});
                break;
            case 9:
                if (is_pool && r.chance(1, 3))
                    p.add("drain", {(long long)r.below(2), (long long)r.below(2)});
                p.add("mva", {(long long)r.below(2)});
                have2 = false;
                break;
            case 10:
                if (is_pool && r.chance(1, 3))
                    p.add("drain", {(long long)r.below(2), (long long)r.below(2)});
                p.add("swp", {});
                break;
            case 11:
                p.add("mk2", {});
                have2 = true;
                break;
            case 12:
                p.add("ds", {(long long)r.below(2)});
                have2 = false;
                break;
            case 13:
                p.add("dhusk", {(long long)r.below(8)});
                break;
            case 14:
                p.add("over", {obj(), (long long)r.below(4), (long long)r.below(2), (long long)r.below(64)});
                break;
            case 15:
                p.add("markcap", {obj()});
                break;
            case 16:
                p.add("cycle", {obj(), (long long)r.below(4), (long long)r.below(12), (long long)r.below(64),
                                (long long)r.below(2), (long long)r.size_biased(0, 4000)});
                break;
            case 17:
                p.add("rsv", {obj(), (long long)r.below(4000), (long long)r.below(100000)}, fault());
                break;
            case 18:
                p.add("tdf", {(long long)r.below(1000)});
                break;
            case 20:
                p.add("tdfx", {obj(), (long long)r.below(8), (long long)r.below(2), (long long)r.size_biased(0, 4000),
                               (long long)r.below(2)});
                break;
            case 19:
                p.add("cor", {r.chance(1, 2) ? (long long)(live ? live - 1 : 0) : (long long)r.below(1000),
                              (long long)r.below(2), (long long)r.size_biased(0, 4095), (long long)r.below(256)});
                break;
            }
        }
        if (profile == "C16")
        {
            // the complete misuse table (kind x position class) on the state the valid prefix left; every case
            // runs in its own forked child, so none of them disturbs the others
            for (int kind = 0; kind < 3; ++kind)
                for (int pos = 0; pos < 4; ++pos)
                    p.add("bad", {kind, pos, (long long)r.below(1000)});
            p.add("bad", {0, 4, (long long)r.below(1000)});
            p.add("bad", {0, 5, (long long)r.below(1000)});
            p.add("bad", {1, 4, (long long)r.below(1000)});
            p.add("bad", {1, 5, (long long)r.below(1000)});
            p.add("bad", {1, 6, (long long)r.below(100000)});
            p.add("bad", {1, 7, (long long)r.below(100000)});
            for (int k = 0; k < 4; ++k)
                p.add("badblk", {k});
            return p;
        }
        // C04 / C15 endings
        if (profile == "C04" || (w_cap && r.chance(1, 2)))
        {
            p.add("frall", {0, (long long)r.below(1000)});
            p.add("checkcap", {0});
        }
        else if (profile != "C15" && r.chance(1, 2) && !is_stack && !is_iter)
            p.add("frall", {0, (long long)r.below(1000)});
        if (profile == "C04")
        {
            // the episode marker goes first
            Op m;
            m.kind = "markcap";
            m.a    = {0};
            p.ops.insert(p.ops.begin(), m);
        }
        return p;
    }
} // namespace hs
