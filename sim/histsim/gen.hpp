#pragma once
#include "../kernel/plan.hpp"
#include <cstdint>
#include <string>
namespace hs
{
    sim::Plan generate(const std::string& profile, std::uint64_t seed);
}
