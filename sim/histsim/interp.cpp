// histsim interpreter: executes a plan against real library objects over the simulated upstream and
// evaluates the step-level oracles of C01-C08, C12, C15, C16 (no false reports), C17 (fill), C18.
#include "interp.hpp"

#include <algorithm>
#include <cstring>
#include <typeinfo>
#include <new>

#include <foonathan/memory/config.hpp>
#include <foonathan/memory/debugging.hpp>
#include <foonathan/memory/error.hpp>

using namespace sim;
namespace fm = foonathan::memory;

namespace hs
{
    namespace
    {
        constexpr bool        FILL  = FOONATHAN_MEMORY_DEBUG_FILL;
        constexpr std::size_t FENCE = FOONATHAN_MEMORY_DEBUG_FILL ? FOONATHAN_MEMORY_DEBUG_FENCE : 0;
        constexpr bool        LEAK  = FOONATHAN_MEMORY_DEBUG_LEAK_CHECK;

        struct Skip
        {
            std::string why;
        };

        std::size_t pow2ceil(std::size_t v)
        {
            std::size_t p = 1;
            while (p < v)
                p <<= 1;
            return p;
        }
        std::size_t alignment_for(std::size_t size)
        {
            auto a = size & ~(size - 1);
            return a > 16 ? 16 : a;
        }
    } // namespace

    std::map<std::string, FactoryInfo>& registry()
    {
        static std::map<std::string, FactoryInfo> r;
        return r;
    }

    Handlers& handlers()
    {
        static Handlers* h = new Handlers; // never destroyed: library statics report leaks at exit
        return *h;
    }

    void install_error_handlers(int set);
    void install_handlers()
    {
        fm::set_leak_handler(
            [](const fm::allocator_info& info, std::ptrdiff_t amount)
            {
                auto& h = handlers();
                ++h.leak_calls;
                h.leak_amount = amount;
                h.leak_name   = info.name ? info.name : "";
            });
        fm::set_invalid_pointer_handler(
            [](const fm::allocator_info& info, const void*)
            {
                auto& h = handlers();
                ++h.invalid_calls;
                h.invalid_name = info.name ? info.name : "";
            });
        fm::set_buffer_overflow_handler(
            [](const void* mem, std::size_t size, const void* ptr)
            {
                auto& h = handlers();
                if (h.overflow_calls < 4)
                    h.overflow[h.overflow_calls] = {mem, size, ptr};
                ++h.overflow_calls;
            });
        install_error_handlers(0);
    }

    // two interchangeable sets of error handlers; a run starts with set 0 and switches after every failure, so a
    // handler that the library remembered from an earlier failure (instead of the installed one) shows as stale
    int g_error_handler_set = 0;
    void install_error_handlers(int set)
    {
        g_error_handler_set = set & 1;
        if (g_error_handler_set == 0)
        {
            fm::out_of_memory::set_handler(
                [](const fm::allocator_info&, std::size_t)
                {
                    if (g_error_handler_set == 0)
                        ++handlers().oom_calls;
                    else
                        ++handlers().stale_calls;
                });
            fm::bad_allocation_size::set_handler(
                [](const fm::allocator_info&, std::size_t, std::size_t)
                {
                    if (g_error_handler_set == 0)
                        ++handlers().badsize_calls;
                    else
                        ++handlers().stale_calls;
                });
        }
        else
        {
            fm::out_of_memory::set_handler(
                [](const fm::allocator_info&, std::size_t)
                {
                    if (g_error_handler_set == 1)
                        ++handlers().oom_calls;
                    else
                        ++handlers().stale_calls;
                });
            fm::bad_allocation_size::set_handler(
                [](const fm::allocator_info&, std::size_t, std::size_t)
                {
                    if (g_error_handler_set == 1)
                        ++handlers().badsize_calls;
                    else
                        ++handlers().stale_calls;
                });
        }
    }

    // every run starts by taking the harness's handlers off and putting them on again: set_X_handler(nullptr) must
    // restore the library's default (not keep the one that was uninstalled) and return the one that was installed
    void check_handler_registration()
    {
        {
            auto mine = fm::get_buffer_overflow_handler();
            auto prev = fm::set_buffer_overflow_handler(nullptr);
            auto now  = fm::get_buffer_overflow_handler();
            fm::set_buffer_overflow_handler(mine);
            if (prev != mine || now == mine || !now)
                violate("C17", "handler_registration", "set_buffer_overflow_handler(nullptr) %s",
                        prev != mine ? "did not return the installed handler" :
                                       "did not restore the default handler");
        }
        {
            auto mine = fm::get_invalid_pointer_handler();
            auto prev = fm::set_invalid_pointer_handler(nullptr);
            auto now  = fm::get_invalid_pointer_handler();
            fm::set_invalid_pointer_handler(mine);
            if (prev != mine || now == mine || !now)
                violate("C16", "handler_registration", "set_invalid_pointer_handler(nullptr) did not restore the "
                                                       "default handler or did not return the installed one");
        }
        {
            auto mine = fm::get_leak_handler();
            auto prev = fm::set_leak_handler(nullptr);
            auto now  = fm::get_leak_handler();
            fm::set_leak_handler(mine);
            if (prev != mine || now == mine || !now)
                violate("C15", "handler_registration", "set_leak_handler(nullptr) did not restore the default "
                                                       "handler or did not return the installed one");
        }
        {
            auto mine = fm::out_of_memory::get_handler();
            auto prev = fm::out_of_memory::set_handler(nullptr);
            auto now  = fm::out_of_memory::get_handler();
            fm::out_of_memory::set_handler(mine);
            if (prev != mine || now == mine || !now)
                violate("C03", "handler_registration", "out_of_memory::set_handler(nullptr) did not restore the "
                                                       "default handler or did not return the installed one");
        }
        {
            auto mine = fm::bad_allocation_size::get_handler();
            auto prev = fm::bad_allocation_size::set_handler(nullptr);
            auto now  = fm::bad_allocation_size::get_handler();
            fm::bad_allocation_size::set_handler(mine);
            if (prev != mine || now == mine || !now)
                violate("C03", "handler_registration", "bad_allocation_size::set_handler(nullptr) did not restore "
                                                       "the default handler or did not return the installed one");
        }
    }

    Failure classify_current_exception()
    {
        Failure f;
        f.threw = true;
        try
        {
            throw;
        }
        catch (const sim::sim_bad_alloc&)
        {
            f.is_bad_alloc = f.is_sim = true;
            f.type                    = "sim_bad_alloc";
        }
        catch (const fm::out_of_memory& e)
        {
            f.is_bad_alloc = f.is_oom = true;
            f.type                    = typeid(e).name();
        }
        catch (const fm::bad_allocation_size& e)
        {
            f.is_bad_alloc = f.is_bad_size = true;
            f.type                         = typeid(e).name();
        }
        catch (const std::bad_alloc& e)
        {
            f.is_bad_alloc = true;
            f.type         = typeid(e).name();
        }
        catch (const std::exception& e)
        {
            f.type = typeid(e).name();
        }
        catch (const sim::Violation&)
        {
            throw;
        }
        catch (...)
        {
            f.type = "unknown";
        }
        return f;
    }

    //=== run ===//
    RunResult Interp::run(const Plan& p)
    {
        RunResult res;
        plan_ = &p;
        auto& heap = SimHeap::get();
        handlers().reset();
        shadow_.reset();
        hash_ = RunHash();
        husks_.clear();
        objs_[0]           = ObjSt();
        objs_[1]           = ObjSt();
        step_              = -1;
        nontrivial_growth_ = nontrivial_release_ = false;
        moves_done_                              = 0;
        next_owner_                              = 0;
        heap.reset(int(p.num("place", 0)), p.num("minalign", 0) != 0, false,
                   (std::uint64_t)p.num("hseed", 1));
        try
        {
            install_error_handlers(0); // (every run starts with set 0: what a run sees must not depend on earlier runs)
            check_handler_registration();
            op_make(0);
            for (std::size_t i = 0; i < p.ops.size(); ++i)
            {
                step_ = int(i);
                exec(p.ops[i]);
                if (i % 8 == 7)
                    shadow_.check_all(cprop("C01"), "periodic sweep");
            }
            step_ = int(p.ops.size());
            shadow_.check_all(cprop("C01"), "end of run");
            // the low-level allocators hand out upstream memory directly: a caller returns it before exit
            for (int k = 0; k < 2; ++k)
                if (objs_[k].o && !objs_[k].husk && objs_[k].o->caps.kind == K_LOWLEVEL)
                    op_free_all(k, 1);
            // teardown in a drawn order
            auto end = p.num("end", 0);
            if (end & 1)
                for (auto& h : husks_)
                    destroy_obj(h, true);
            for (int k = 0; k < 2; ++k)
            {
                auto& S = objs_[(end & 2) ? 1 - k : k];
                if (S.o)
                    destroy_obj(S, S.husk);
            }
            if (!(end & 1))
                for (auto& h : husks_)
                    destroy_obj(h, true);
            husks_.clear();
            if (auto n = heap.live_count(OWNER_MALLOC))
                violate(cprop("C05"), "block_leak", "%zu upstream blocks still outstanding after all "
                                                    "allocators were destroyed",
                        n);
        }
        catch (Violation& v)
        {
            v.step       = step_;
            // whatever goes wrong with a temporary_allocator nest is also a matter of C14
            if (plan_->get("sut") == "temp" && v.prop.find("C14") == std::string::npos)
                v.prop += ",C14";
            res.violated = true;
            res.v        = v;
            // abandon the objects (never run destructors on a state we no longer trust)
            for (auto& S : objs_)
            {
                delete S.o;
                S = ObjSt();
            }
            for (auto& h : husks_)
                delete h.o;
            husks_.clear();
            heap.end_op();
        }
        catch (Skip& s)
        {
            res.skip = s.why;
            for (auto& S : objs_)
            {
                delete S.o;
                S = ObjSt();
            }
            for (auto& h : husks_)
                delete h.o;
            husks_.clear();
            heap.end_op();
        }
        for (auto& e : heap.events())
        {
            hash_.add(e.acquire);
            hash_.add(e.off);
            hash_.add(e.size);
        }
        res.hash       = hash_.h;
        res.ops        = p.ops.size();
        res.nontrivial = nontrivial_growth_ && nontrivial_release_;
        return res;
    }

    const char* Interp::cprop(const char* base)
    {
        // violations of the memory-safety / ledger oracles that happen after a move are also C12's
        if (!moves_done_)
            return base;
        static std::string s;
        s = std::string(base) + ",C12";
        return s.c_str();
    }

    void Interp::exec(const Op& op)
    {
        const auto& k = op.kind;
        if (k == "an")
            op_alloc(op, false);
        else if (k == "aa")
            op_alloc(op, true);
        else if (k == "fr")
            op_free(op.arg(0));
        else if (k == "frall")
            op_free_all(int(op.arg(0)), int(op.arg(1)));
        else if (k == "top")
            op_top(int(op.arg(0)));
        else if (k == "unw")
            op_unwind(int(op.arg(0)), op.arg(1), op.arg(2) != 0);
        else if (k == "next")
            op_next(int(op.arg(0)));
        else if (k == "shrink")
            op_shrink(int(op.arg(0)), op.arg(1));
        else if (k == "mv")
            op_move(int(op.arg(0)), int(op.arg(1)));
        else if (k == "mva")
            op_move_assign(int(op.arg(0)));
        else if (k == "swp")
            op_swap();
        else if (k == "mk2")
            op_make(1);
        else if (k == "ds")
            op_destroy(int(op.arg(0)));
        else if (k == "dhusk")
            op_destroy_husk(op.arg(0));
        else if (k == "nh")
            op_newhandler(op);
        else if (k == "over")
            op_over(op);
        else if (k == "markcap")
            op_mark_cap(int(op.arg(0)));
        else if (k == "checkcap")
            op_check_cap(int(op.arg(0)));
        else if (k == "cycle")
            op_cycle(op);
        else if (k == "mbs")
            op_mbs(op);
        else if (k == "rsv")
            op_reserve(op);
        else if (k == "tdf")
            op_foreign(op);
        else if (k == "tdfx")
            op_foreign_adjacent(op);
        else if (k == "drain")
            op_drain(op);
        else if (k == "fill")
            op_fill(op);
        else if (k == "bad")
            op_bad(op);
        else if (k == "badblk")
            op_bad_block(op);
        else if (k == "cor")
            op_corrupt(op);
        else if (k == "corsweep")
            op_corsweep(op);
        else
            throw Skip{"unknown op " + k};
    }

    //=== helpers ===//
    ObjSt* Interp::live_obj(long long which)
    {
        auto& S = objs_[which & 1];
        return S.o && !S.husk ? &S : nullptr;
    }

    void* Interp::new_slot(std::size_t size, int where)
    {
        void* s = SimHeap::get().harness_alloc(size + 64, 64, ((where % 3) + 3) % 3);
        if (!s)
            throw Skip{"no slot memory"};
        return s;
    }

    ObjCfg Interp::cfg_for(int which)
    {
        const auto& p   = *plan_;
        std::string sfx = which ? "2" : "";
        ObjCfg      c;
        c.node_size    = std::size_t(p.num("node_size" + sfx, p.num("node_size", 16)));
        c.max_node     = std::size_t(p.num("max_node" + sfx, p.num("max_node", 64)));
        c.block_size   = std::size_t(p.num("block_size" + sfx, p.num("block_size", 1024)));
        c.storage_size = std::size_t(p.num("storage_size" + sfx, p.num("storage_size", 4096)));
        c.no_blocks    = std::size_t(p.num("no_blocks" + sfx, p.num("no_blocks", 4)));
        c.vary         = unsigned(p.num("vary" + sfx, p.num("vary", 0)));
        c.mbs_n        = which ? 0 : std::size_t(p.num("mbs_n", 0));
        c.raii         = p.num("raii", 0) != 0;
        c.owner        = OWNER_FIRST + next_owner_++; // unique per construction
        return c;
    }

    void Interp::after_sut_call(const char* what)
    {
        auto& heap    = SimHeap::get();
        auto  pending = heap.take_pending();
        if (!pending.empty())
        {
            if (pending.compare(0, 8, "HARNESS:") == 0)
                throw Skip{pending};
            auto sp  = pending.find(' ');
            auto cls = pending.substr(0, sp);
            violate(cprop("C05"), cls.c_str(), "during %s: %s", what, pending.c_str());
        }
        auto& h = handlers();
        // (a handler that fires in a contract-respecting history also breaks whatever the history was about)
        std::string also = "," + plan_->get("profile", "C01");
        if (h.invalid_calls)
            violate(cprop(("C16,C05" + also).c_str()), "false_invalid_pointer_report",
                    "during %s of a contract-respecting history the invalid pointer handler fired "
                    "(%s)",
                    what, h.invalid_name.c_str());
        if (h.overflow_calls && !expect_overflow_)
            violate(("C17" + also).c_str(), "false_overflow_report",
                    "during %s the buffer overflow handler fired although nothing wrote out of bounds",
                    what);
        if (h.leak_calls && !in_destroy_)
            violate("C15", "leak_report_unbracketed", "during %s the leak handler fired (amount %td)",
                    what, h.leak_amount);
    }

    void Interp::drop_allocs_of(int idx)
    {
        shadow_.drop_if([&](const Alloc& a) { return a.obj == idx; });
    }

    void Interp::retag(int from, int to)
    {
        shadow_.for_each(
            [&](Alloc& a)
            {
                if (a.obj == from)
                    a.obj = to;
            });
    }

    void Interp::snapshot_caps(ObjSt& S, std::vector<std::size_t>& out)
    {
        out.clear();
        if (S.o->caps.kind == K_POOL)
            out.push_back(S.o->reading(0));
        else if (S.o->caps.kind == K_COLL)
        {
            auto mx = S.o->max_node();
            for (std::size_t s = 1; s <= mx; s = (s < 64 ? s + 1 : s * 2))
                out.push_back(S.o->reading(2, s));
            out.push_back(S.o->reading(2, mx));
        }
    }

    //=== construction / destruction ===//
    void Interp::op_make(int which)
    {
        auto& S = objs_[which];
        if (S.o)
            return;
        auto sut = plan_->get("sut");
        auto it  = registry().find(sut);
        if (it == registry().end())
            throw Skip{"unknown sut " + sut};
        auto& heap = SimHeap::get();
        S          = ObjSt();
        S.cfg      = cfg_for(which);
        if (!it->second.caps.faultable && it->second.caps.kind != K_STATIC)
        {
            // static storage: granted by the harness, placed inside the block area, aligned exactly max_alignment
            S.cfg.storage = heap.harness_alloc(S.cfg.storage_size, 16, 2);
            if (!S.cfg.storage)
                throw Skip{"no storage"};
        }
        if (it->second.caps.kind == K_STATIC)
        {
            S.cfg.storage = heap.harness_alloc(S.cfg.storage_size, 16, 2);
            if (!S.cfg.storage)
                throw Skip{"no storage"};
        }
        S.slot   = new_slot(it->second.object_size, int(plan_->num(which ? "slot2" : "slot", 0)));
        int fail = which ? 0 : int(plan_->num("make_fail", 0));
        heap.begin_op(it->second.caps.faultable ? fail : 0);
        heap.clear_fault_fired();
        Failure f;
        try
        {
            S.o = it->second.make(S.cfg, S.slot);
        }
        catch (...)
        {
            f = classify_current_exception();
        }
        bool fired = heap.fault_fired();
        heap.end_op();
        after_sut_call("construction");
        hash_.add(S.o ? 1 : 2);
        if (f.threw)
        {
            if (!f.is_bad_alloc)
                violate("C03", "wrong_exception", "constructor threw %s, not derived from std::bad_alloc",
                        f.type.c_str());
            if (!fired && it->second.caps.faultable && it->second.caps.kind != K_LOWLEVEL)
                stats().hit("note.ctor_failed_without_fault");
            stats().hit("reach.ctor_failed");
            if (auto n = heap.live_count_owner(S.cfg.owner))
                violate("C05", "block_leak", "constructor failed but %zu upstream block(s) of its source "
                                             "stay allocated",
                        n);
            heap.harness_free(S.slot);
            S = ObjSt();
            return;
        }
        stats().hit("sut." + sut);
        auto& c = S.o->caps;
        if (c.kind == K_STACK)
        {
            // the constructor obtained the first block (sources whose blocks are upstream blocks of their own)
            S.cur_block_known = false;
            auto& ev          = heap.events();
            for (std::size_t k = ev.size(); k-- > 0;)
                if (ev[k].acquire && ev[k].owner == S.o->owner && S.o->owner >= OWNER_MALLOC)
                {
                    S.cur_block       = ev[k].off;
                    S.cur_block_known = heap.find(heap.at(ev[k].off)) != nullptr;
                    break;
                }
        }
        if (c.kind == K_TEMP)
        {
            // the constructor obtained the first block: the newest acquisition of its owner
            S.t_model = false;
            S.t_size  = 1;
            S.t_cached = S.t_block = 0;
            auto& ev = heap.events();
            for (std::size_t k = ev.size(); k-- > 0;)
                if (ev[k].acquire && ev[k].owner == S.o->owner)
                {
                    S.t_block = ev[k].off;
                    S.t_model = true;
                    break;
                }
        }
        if (c.kind == K_TEMP)
            op_top(which); // scope 0: the outermost temporary_allocator
        if (c.iter)
        {
            std::size_t sum = 0;
            for (std::size_t i = 0; i < c.n_iter; ++i)
            {
                S.full_cap.push_back(S.o->reading(3, i));
                sum += S.full_cap.back();
            }
            if (sum > S.cfg.block_size)
                violate("C07", "regions_exceed_block", "sum of region capacities %zu > block size %zu", sum,
                        S.cfg.block_size);
        }
    }

    void Interp::destroy_obj(ObjSt& S, bool is_husk)
    {
        auto& heap = SimHeap::get();
        auto& h    = handlers();
        int   idx  = (&S == &objs_[0]) ? 0 : (&S == &objs_[1]) ? 1 : -1;
        if (!is_husk && idx >= 0 && S.o->caps.kind == K_LOWLEVEL)
            op_free_all(idx, 1); // stateless: the caller returns what it still holds, the object is just a handle
        if (!is_husk && idx >= 0)
            drop_allocs_of(idx);
        long long expected = (is_husk || !S.o->caps.leak_tracked || !LEAK) ? 0 : S.leak_net;
        int       owner    = S.o->owner;
        auto      kind     = S.o->caps.kind;
        h.leak_calls       = 0;
        in_destroy_        = true;
        heap.begin_op(0);
        S.o->destroy();
        heap.end_op();
        after_sut_call(is_husk ? "destruction of a moved-from object" : "destruction");
        in_destroy_ = false;
        hash_.add(0xD0 + h.leak_calls);
        if (expected != 0)
        {
            if (h.leak_calls == 0)
                violate("C15", "leak_report_missing", "net %lld bytes outstanding at destruction, handler "
                                                      "not called",
                        expected);
            if (h.leak_calls > 1)
                violate("C15", "leak_report_repeated", "handler called %u times", h.leak_calls);
            if (h.leak_amount != expected)
                violate("C15", "leak_report_wrong", "handler reported %td, model net is %lld",
                        h.leak_amount, expected);
            stats().hit("reach.leak_reported");
        }
        else if (h.leak_calls)
            violate("C15", "leak_report_spurious", "%s: handler called with %td although net is 0",
                    is_husk ? "moved-from object" : LEAK ? "balanced object" : "leak checking disabled",
                    h.leak_amount);
        h.leak_calls = 0;
        if (!is_husk && owner >= OWNER_FIRST)
            if (auto n = heap.live_count_owner(owner))
                violate(cprop("C05"), "block_leak", "%zu upstream block(s) of the destroyed allocator's "
                                                    "source still outstanding",
                        n);
        (void)kind;
        delete S.o;
        heap.harness_free(S.slot);
        if (S.cfg.storage && !is_husk)
            heap.harness_free(S.cfg.storage);
        S = ObjSt();
    }

    void Interp::op_destroy(int which)
    {
        auto& S = objs_[which & 1];
        if (!S.o)
            return;
        if (which == 0 && !(objs_[1].o && !objs_[1].husk))
            return; // keep at least one usable object until the end of the plan
        destroy_obj(S, S.husk);
    }

    void Interp::op_destroy_husk(long long k)
    {
        if (husks_.empty())
            return;
        auto i = std::size_t(k) % husks_.size();
        destroy_obj(husks_[i], true);
        husks_.erase(husks_.begin() + (long)i);
        shadow_.check_all(cprop("C01"), "after destroying a moved-from object");
    }

    //=== requests ===//
    Req Interp::sanitize(ObjSt& S, int fam, bool array, long long count, long long size, long long al)
    {
        auto& c = S.o->caps;
        Req   r;
        // family: the first one the SUT has, starting from the requested
        fam = ((fam % 3) + 3) % 3;
        for (int t = 0; t < 3; ++t, fam = (fam + 1) % 3)
            if ((fam == MEMBER && c.member) || (fam == TRAITS && c.traits) || (fam == COMP && c.comp))
                break;
        r.fam   = fam;
        r.array = array && c.array;
        auto usz = std::size_t(size < 0 ? -size : size);
        auto ucn = std::size_t(count < 0 ? -count : count);
        auto ual = std::size_t(al < 0 ? -al : al);
        r.align  = std::size_t(1) << (ual % 13);
        r.count  = 1 + ucn % 40;
        switch (c.kind)
        {
        case K_POOL:
        {
            auto ns = S.o->reading(4);
            r.size  = fam == MEMBER ? ns : 1 + usz % ns;
            auto ma = S.o->max_align();
            while (r.align > ma)
                r.align >>= 1;
            if (r.array)
            {
                auto unit = fam == MEMBER ? ns : r.size;
                auto lim  = S.o->max_array() / unit;
                if (lim > 40)
                    lim = 40;
                if (lim < 1)
                    lim = 1;
                r.count = 1 + ucn % lim;
            }
            break;
        }
        case K_COLL:
        {
            auto mx = S.o->max_node();
            r.size  = 1 + usz % mx;
            auto ma = alignment_for(r.size);
            while (r.align > ma)
                r.align >>= 1;
            if (r.array)
            {
                // mostly comfortable arrays, sometimes up to half a block
                auto lim = S.cfg.block_size / ((ucn % 7 == 0 ? 2 : 16) * r.size);
                if (lim > 40)
                    lim = 40;
                if (lim < 1)
                    lim = 1;
                r.count = 1 + ucn % lim;
            }
            break;
        }
        case K_TEMP:
        case K_STACK:
        {
            auto big = (usz % 11 == 0);
            auto cap = big ? S.o->reading(1) / 2 : S.cfg.block_size / 4;
            if (cap > (1u << 20))
                cap = 1u << 20;
            if (cap < 1)
                cap = 1;
            r.size = 1 + usz % cap;
            if (r.array)
            {
                r.count = 1 + ucn % 8;
                r.size  = 1 + r.size / r.count;
            }
            break;
        }
        case K_ITER:
        {
            auto cap = S.cfg.block_size / (S.o->caps.n_iter * 3);
            if (cap < 1)
                cap = 1;
            r.size = 1 + usz % cap;
            if (r.align > 256)
                r.align = 256;
            if (r.array)
            {
                r.count = 1 + ucn % 4;
                r.size  = 1 + r.size / r.count;
            }
            break;
        }
        case K_STATIC:
            r.size = 1 + usz % (S.cfg.storage_size / 8);
            if (r.align > 256)
                r.align = 256;
            if (r.array)
            {
                r.count = 1 + ucn % 4;
                r.size  = 1 + r.size / r.count;
            }
            break;
        case K_LOWLEVEL:
            r.size = 1 + usz % 4096;
            if (r.align > 16)
                r.align = 16;
            if (r.array)
                r.count = 1 + ucn % 8;
            break;
        default:
            r.size  = 1;
            r.align = 1;
            r.array = false;
        }
        if (!r.array)
            r.count = 1;
        return r;
    }

    bool Interp::do_alloc(ObjSt& S, int idx, const Req& r, int fail, Alloc** out, bool in_replay)
    {
        auto& heap = SimHeap::get();
        auto& c    = S.o->caps;
        auto& h    = handlers();
        ++S.attempts;
        std::size_t cap0 = 0, next0 = 0, pc0 = 0;
        bool        have_caps = c.kind == K_POOL || c.kind == K_COLL || c.kind == K_STACK
                         || c.kind == K_ITER;
        if (have_caps)
        {
            cap0  = S.o->reading(0);
            next0 = c.kind == K_ITER ? 0 : S.o->reading(1);
            if (c.kind == K_COLL && r.size <= S.o->max_node())
                pc0 = S.o->reading(2, r.size);
        }
        std::size_t arena_cache0 = c.kind == K_ARENA ? S.o->reading(7) : 0;
        std::size_t temp_next0   = c.kind == K_TEMP ? S.o->reading(1) : 0;
        auto        too_large0   = heap.stats_too_large_;
        auto        oom0 = h.oom_calls, bad0 = h.badsize_calls;
        heap.begin_op(c.faultable ? fail : 0);
        heap.clear_fault_fired();
        void*       p      = nullptr;
        std::size_t usable = 0;
        Failure     f;
        try
        {
            p = S.o->allocate(r, usable);
        }
        catch (...)
        {
            f = classify_current_exception();
        }
        auto calls = heap.op_calls();
        auto fired = heap.fault_fired();
        heap.end_op();
        last_calls_ = calls;
        after_sut_call("allocation");
        hash_.add(0xA0 + unsigned(r.fam) + (r.array ? 8 : 0));
        hash_.add(r.count * 1000003 + r.size);
        hash_.add(p ? heap.off(p) : (f.threw ? 1 : 2));
        if (fired)
            stats().hit("fault.upstream_failure_fired");
        if (calls)
            stats().hit("reach.upstream_request_in_history");
        if ((calls && S.successes) || (!c.grows && S.successes >= 3))
            nontrivial_growth_ = true;

        if (f.threw)
        {
            stats().hit("reach.alloc_threw." + std::string(f.is_sim ? "sim" : f.is_oom ? "oom" :
                                                            f.is_bad_size ? "bad_size" : "other"));
            if (r.fam == COMP)
                violate("C03", "try_threw", "a try_ function threw %s", f.type.c_str());
            if (!f.is_bad_alloc)
                violate("C03", "wrong_exception", "allocation threw %s, not derived from std::bad_alloc",
                        f.type.c_str());
            if (!f.is_sim && !f.is_oom && !f.is_bad_size)
                violate("C03", "wrong_exception",
                        "allocation threw %s: a bad_alloc that is neither the upstream's own exception nor "
                        "of the library's out_of_memory / bad_allocation_size families",
                        f.type.c_str());
            // the next failure of this run must call the other set
            install_error_handlers(1 - g_error_handler_set);
            if (h.stale_calls)
                violate("C03", "handler_stale", "a failure called an error handler that had been replaced by "
                                                "set_handler() before (%s)",
                        f.type.c_str());
            if (f.is_oom && h.oom_calls == oom0)
                violate("C03", "handler_not_called", "out_of_memory thrown without calling its handler");
            if (f.is_bad_size && h.badsize_calls == bad0)
                violate("C03", "handler_not_called",
                        "bad_allocation_size thrown without calling its handler");
            // the narrow liveness clause: after an earlier failure, with no fault attached to this request and an
            // upstream that says yes, a request comfortably inside the advertised limits must be served
            if (S.failure_seen && !fired && fail == 0 && heap.stats_too_large_ == too_large0 && r.fam != COMP
                && !in_over_)
            {
                bool comfortable = false;
                if (c.grows && c.faultable && c.unbounded)
                {
                    if (c.kind == K_POOL)
                        comfortable = !r.array || usable <= next0 / 2;
                    else if (c.kind == K_COLL)
                        comfortable = !r.array;
                    else if (c.kind == K_STACK)
                        comfortable = next0 < (std::size_t(1) << 40)
                                      && r.count * r.size + r.align + 2 * FENCE + 64 <= next0 / 2;
                    else if (c.kind == K_ARENA)
                        comfortable = true;
                }
                else if (c.kind == K_ARENA && c.faultable && !c.shrink)
                {
                    // one-block source under an uncached arena: it can serve again once its block has come back
                    bool any = false;
                    shadow_.for_each([&](Alloc& a) { any = any || a.obj == idx; });
                    comfortable = !any;
                }
                if (comfortable)
                    violate("C03", "unusable_after_failure",
                            "after an earlier failed request, a request well inside the advertised limits "
                            "(fam %d, %s, %zu bytes) failed with %s although no fault was injected and the "
                            "upstream had memory",
                            r.fam, r.array ? "array" : "node", r.array ? r.count * r.size : r.size,
                            f.type.c_str());
            }
            // an arena on a source with a known number of blocks (static storage, reserved virtual memory) may only run
            // out when it holds them all (in use or cached)
            if (c.kind == K_ARENA && !fired && heap.stats_too_large_ == too_large0 && !S.failure_seen)
            {
                bool        st = S.o->name.size() > 3 && S.o->name.compare(S.o->name.size() - 3, 3, ".ST") == 0;
                bool        vb = S.o->name.size() > 3 && S.o->name.compare(S.o->name.size() - 3, 3, ".VB") == 0;
                std::size_t total = st ? S.cfg.storage_size / S.cfg.block_size : vb ? S.cfg.no_blocks : 0;
                std::size_t held  = S.o->reading(7);
                shadow_.for_each([&](Alloc& a) { held += a.obj == idx ? 1 : 0; });
                if (total && held < total)
                    violate("C05,C03,C18", "fixed_source_exhausted_early",
                            "allocate_block failed with %s although the arena holds %zu of the %zu blocks its %s "
                            "source has",
                            f.type.c_str(), held, total, st ? "static" : "virtual memory");
                if (total)
                    stats().hit("reach.fixed_source_exhausted");
            }
            // a request that failed because its one upstream call failed consumed nothing: the announced size
            // of the next growth must be what it was
            if (c.kind == K_TEMP && fired && calls == 1 && S.o->reading(1) != temp_next0)
                violate("C18,C03,C14", "next_capacity_changed_by_failed_growth",
                        "the upstream call of this request failed, yet the temporary stack's next_capacity() went "
                        "from %zu to %zu",
                        temp_next0, S.o->reading(1));
            if (fired && calls == 1 && have_caps && c.kind != K_ITER && c.grows && S.o->reading(1) != next0)
                violate("C18,C03", "next_capacity_changed_by_failed_growth",
                        "the upstream call of this request failed, yet next_capacity() went from %zu to %zu", next0,
                        S.o->reading(1));
            S.failure_seen   = true;
            S.cur_block_known = false; // (a failed request may have moved the stack to another block)
            if (c.kind == K_TEMP && (calls != (fired ? 1u : 0u) || !f.is_sim))
                S.t_model = false; // the stack grows first and judges the size then (bad_allocation_size): it may
                                   // have moved to a fresh or cached block the model cannot see
            S.last_end_valid = false; // a failed request may have moved the stack to a fresh block
            for (auto& m : S.markers)
            {
                m.tape_valid = false;
                m.grew_dead  = true;
            }
            shadow_.check_all(cprop("C03,C01"), "after a failed allocation");
            return false;
        }
        if (!p)
        {
            if (r.fam != COMP)
                violate("C03", "null_return", "a throwing allocation function returned nullptr (fam=%d "
                                              "array=%d size=%zu)",
                        r.fam, int(r.array), r.size);
            if (calls)
                violate("C03", "try_grew", "a try_ function made %u upstream request(s)", calls);
            stats().hit("reach.try_returned_null");
            S.failure_seen = true;
            for (auto& m : S.markers)
            {
                m.tape_valid = false;
                m.grew_dead  = true;
            }
            return false;
        }
        if (r.fam == COMP && calls)
            violate("C03", "try_grew", "a try_ function made %u upstream request(s)", calls);
        if (c.kind == K_ARENA && c.shrink && arena_cache0 > 0 && calls)
            violate("C05", "cache_not_reused", "arena had %zu cached block(s) but requested a new block "
                                               "upstream",
                    arena_cache0);

        // a request above the advertised maxima that is served: said first, as what it is (the memory it got is
        // usually too small, which the checks below would report under another property's name)
        if (in_over_ && c.bounded_max)
            violate("C18,C03", "above_max_succeeded", "a request above the allocator's maxima (node max %zu, array "
                                                      "max %zu, alignment max %zu) succeeded: size=%zu count=%zu "
                                                      "align=%zu",
                    S.o->max_node(), S.o->max_array(), S.o->max_align(), r.size, r.count, r.align);

        // --- the allocation itself: C01 / C02 ---
        auto& a  = shadow_.add(cprop("C01,C02"), p, usable, r.align, idx, S.o->owner, S.o->header, true);
        // (a fresh allocation that overlaps a live one, or runs past its block, is not "size usable bytes" either)
        a.array  = r.array;
        a.count  = r.count;
        a.size   = r.size;
        a.fam    = r.fam;
        a.tag    = S.iter;
        a.delta  = 0;
        if (FILL && c.kind != K_ARENA && c.kind != K_LIST)
        {
            for (std::size_t i = 0; i < usable; ++i)
                if ((unsigned char)a.p[i] != 0xCD)
                    violate("C17", "new_fill_missing",
                            "byte %zu of a fresh %zu-byte allocation is 0x%02x, not the new-memory pattern",
                            i, usable, (unsigned)(unsigned char)a.p[i]);
            ++fill_checks_;
        }
        shadow_.fill(a);
        ++S.successes;
        if (c.kind == K_TEMP && S.t_model)
        {
            auto blk = heap.find(p);
            if (!blk)
                S.t_model = false;
            else if (blk->off != S.t_block)
            {
                // the stack moved on to another block: a fresh one (one upstream request) or a cached one
                S.t_block = blk->off;
                ++S.t_size;
                if (calls == 0)
                {
                    if (S.t_cached == 0)
                        violate("C05,C06", "temp_block_model", "the temporary stack moved to another block without "
                                                               "an upstream request although it caches none");
                    --S.t_cached;
                    stats().hit("reach.temp_grew_from_cache");
                }
                else if (S.t_cached)
                    violate("C05", "cache_not_reused", "the temporary stack caches %zu block(s) but requested a "
                                                       "new one upstream",
                            S.t_cached);
            }
        }
        if (r.fam == TRAITS && c.leak_tracked)
            S.leak_net += (long long)usable;

        // --- C04 (ii): no growth while the matching list holds a node ---
        if (!r.array && !fired)
        {
            if (c.kind == K_POOL && cap0 >= S.o->reading(4) && calls)
                violate("C04", "grew_with_free_node", "pool had %zu bytes on its free list but made %u "
                                                      "upstream request(s) for a single node",
                        cap0, calls);
            if (c.kind == K_COLL && pc0 >= 1 && calls)
                violate("C04", "grew_with_free_node", "bucket for size %zu had %zu free node(s) but the "
                                                      "collection made %u upstream request(s)",
                        r.size, pc0, calls);
        }
        // --- C18: counters move by exactly what was consumed ---
        if (have_caps && !fired)
        {
            auto cap1 = S.o->reading(0);
            if (c.kind == K_POOL && S.o->owner >= OWNER_FIRST && (S.successes % 16 == 1 || S.successes < 64))
            {
                // what a pool calls free cannot be more than what it holds (minus what is handed out)
                // (a sweep over the live set: judged for the first requests and every 16th after that)
                std::size_t held = 0, out = 0;
                for (auto& b : heap.blocks_of(S.o->owner))
                    held += b.second;
                shadow_.for_each([&](Alloc& x) { out += x.obj == idx ? x.bytes : 0; });
                if (held && cap1 + out > held)
                    violate("C18,C01,C04", "capacity_exceeds_memory",
                            "capacity_left() is %zu with %zu bytes handed out, the pool holds %zu bytes of upstream "
                            "memory",
                            cap1, out, held);
            }
            if (c.kind == K_POOL)
            {
                auto ns    = S.o->reading(4);
                auto taken = (usable + ns - 1) / ns * ns;
                if (!r.array)
                    taken = ns;
                a.delta = (long long)taken;
                bool plain = cap0 >= taken && cap1 == cap0 - taken;
                bool grown = cap1 == cap0 + next0 - taken;
                // a single node may only cause growth when the list was empty; an array search may legitimately
                // fail on a fragmented list and grow
                if (!plain && grown && !r.array && cap0 >= ns)
                    violate("C04,C18", "grew_with_free_node",
                            "pool had %zu bytes on its free list but grew by a block for a single node "
                            "(capacity_left %zu -> %zu)",
                            cap0, cap0, cap1);
                // the very first request on a fresh pool: its free list is the first block in one piece, an array that
                // fits into it must not make the pool grow
                if (!plain && grown && r.array && S.successes == 1 && taken <= cap0)
                    violate("C04,C18", "grew_with_free_node",
                            "a fresh pool with %zu free bytes in one piece grew by a block for an array that takes "
                            "%zu bytes",
                            cap0, taken);
                if (!plain && !(grown && (r.array || cap0 < ns)))
                    violate("C18,C04", "counter_delta",
                            "pool capacity_left %zu -> %zu for %zu byte(s) taken (node size %zu, next_capacity "
                            "was %zu, %u upstream call(s))",
                            cap0, cap1, taken, ns, next0, calls);
            }
            else if (c.kind == K_COLL && !r.array && pc0 >= 1)
            {
                auto pc1 = S.o->reading(2, r.size);
                if (pc1 != pc0 - 1 || cap1 != cap0)
                    violate("C18", "counter_delta", "collection: pool_capacity_left %zu -> %zu, arena "
                                                    "capacity_left %zu -> %zu for one node from a non-empty list",
                            pc0, pc1, cap0, cap1);
            }
            else if (c.kind == K_STACK || c.kind == K_ITER)
            {
                // in-block allocation: starts where the previous one (incl. its back fence) ended, plus front
                // fence and alignment padding. Then capacity_left must drop by exactly the distance covered.
                auto pu = reinterpret_cast<std::uintptr_t>(p);
                auto blk = heap.find(p);
                if (S.last_end_valid && blk && blk->off == S.last_block && pu >= S.last_end + FENCE
                    && pu < S.last_end + FENCE + r.align && cap1 <= cap0)
                {
                    auto d    = cap0 - cap1;
                    auto want = std::size_t(pu + usable + FENCE - S.last_end);
                    // (if it would not have fitted, the stack moved to a block that merely happens to follow)
                    if (want <= cap0 && d != want)
                        violate("C18", "counter_delta", "capacity_left dropped by %zu, the allocation covers "
                                                        "%zu bytes (size %zu, alignment %zu, fence %zu)",
                                d, want, usable, r.align, FENCE);
                    stats().hit("reach.stack_delta_checked");
                }
                // the stack moved on to its next block (a new or a cached one): remember how large that block was
                // announced to be, for every marker that sees its first growth here
                if (c.kind == K_STACK)
                {
                    bool grew = calls || (S.cur_block_known && blk && blk->off != S.cur_block);
                    for (auto& m : S.markers)
                    {
                        if (!S.cur_block_known && !calls)
                            m.grew_dead = true; // cannot tell whether the stack moved to a cached block
                        else if (grew && !m.grew_next && !m.grew_dead)
                            m.grew_next = next0;
                    }
                    S.cur_block       = blk ? blk->off : 0;
                    S.cur_block_known = blk != nullptr;
                }
                S.last_end       = pu + usable + FENCE;
                S.last_end_valid = blk != nullptr;
                S.last_block     = blk ? blk->off : 0;
            }
        }
        if (!in_replay || true)
            for (auto& m : S.markers)
                m.tape.push_back({r, heap.off(p)});
        if (out)
            *out = &a;
        return true;
    }

    void Interp::op_alloc(const Op& op, bool array)
    {
        // an obj fam size align      aa obj fam count size align
        auto S = live_obj(op.arg(0));
        if (!S)
            return;
        Req r = array ? sanitize(*S, int(op.arg(1)), true, op.arg(2), op.arg(3), op.arg(4)) :
                        sanitize(*S, int(op.arg(1)), false, 1, op.arg(2), op.arg(3));
        // an optional last argument asks for a node exactly at the documented limit (pools: the node size,
        // collections: max_node_size())
        if (array && op.arg(5) == 1 && S->o->caps.kind == K_POOL && S->o->caps.array)
        {
            // an array exactly as large as max_array_size() allows (the whole of the next block)
            auto unit = r.fam == MEMBER ? S->o->reading(4) : r.size;
            auto lim  = S->o->max_array() / (unit ? unit : 1);
            if (lim >= 1 && lim <= 100000)
            {
                r.count = lim;
                stats().hit("reach.array_exactly_at_max_array_size");
            }
        }
        if (!array && op.arg(4) == 1)
        {
            auto kind = S->o->caps.kind;
            if (kind == K_LOWLEVEL && S->o->name != "ll.virtual")
            {
                r.size = 0; // malloc(0) and friends: a node of no bytes (it still has its fences)
                stats().hit("reach.zero_sized_node");
            }
            if (kind == K_COLL)
            {
                r.size = S->o->max_node();
                while (r.align > alignment_for(r.size))
                    r.align >>= 1;
                stats().hit("reach.node_exactly_at_max_node_size");
            }
            else if (kind == K_POOL)
            {
                r.size = S->o->reading(4);
                stats().hit("reach.node_exactly_at_max_node_size");
            }
        }
        do_alloc(*S, index_of(*S), r, op.fail, nullptr, false);
    }

    void Interp::do_free(Alloc a)
    {
        auto& heap = SimHeap::get();
        auto& S    = objs_[a.obj];
        auto& c    = S.o->caps;
        Req   r{a.fam, a.array, a.count, a.size, a.align};
        std::size_t cap0 = 0, pc0 = 0;
        if (c.kind == K_POOL || c.kind == K_COLL)
        {
            cap0 = S.o->reading(0);
            if (c.kind == K_COLL)
                pc0 = S.o->reading(2, a.size);
        }
        auto& hd = handlers();
        expect_overflow_ = a.cor_pre || a.cor_post;
        hd.overflow_calls = 0;
        heap.begin_op(0);
        bool ok = S.o->deallocate(r, a.p);
        auto calls = heap.op_calls();
        heap.end_op();
        after_sut_call("deallocation");
        if (expect_overflow_)
        {
            expect_overflow_ = false;
            unsigned want = (a.cor_pre ? 1 : 0) + (a.cor_post ? 1 : 0);
            if (hd.overflow_calls != want)
                violate("C17", "overflow_not_reported", "%u fence(s) of a %zu-byte node were overwritten, the "
                                                        "buffer overflow handler was called %u time(s)",
                        want, a.bytes, hd.overflow_calls);
            const char* exp[2] = {a.cor_pre, a.cor_post};
            unsigned    n      = 0;
            for (auto e : exp)
            {
                if (!e)
                    continue;
                auto& o = hd.overflow[n++];
                if (o.mem != a.p || o.size != a.bytes || o.ptr != e)
                    violate("C17", "overflow_report_wrong",
                            "handler got (memory %+td, size %zu, write_ptr %+td), expected (memory +0, size "
                            "%zu, write_ptr %+td) relative to the node",
                            (const char*)o.mem - a.p, o.size, (const char*)o.ptr - a.p, a.bytes, e - a.p);
            }
            hd.overflow_calls = 0;
            stats().hit("fault.fence_corruption_reported", want);
        }
        hash_.add(0xF0);
        hash_.add(heap.off(a.p));
        nontrivial_release_ = true;
        if (a.fam == COMP && !ok)
            violate("C08,C04", "own_dealloc_refused", "try_deallocate returned false for memory this allocator "
                                                  "handed out (bytes=%zu array=%d)",
                    a.bytes, int(a.array));
        if (calls)
            violate("C04", "release_requested_upstream", "a deallocation made %u upstream request(s)",
                    calls);
        if (a.fam == TRAITS && c.leak_tracked)
            S.leak_net -= (long long)a.bytes;
        if (c.kind == K_POOL || c.kind == K_COLL)
        {
            std::size_t stride, link = std::strstr(S.o->name.c_str(), ".small.") ? 1 : sizeof(void*);
            if (c.kind == K_POOL)
                stride = S.o->reading(4);
            else
            {
                auto sz = a.size < link ? link : a.size;
                stride  = std::strstr(S.o->name.c_str(), ".log2.") ? pow2ceil(sz) : sz;
            }
            if (FILL)
            {
                // released memory carries the freed pattern except the bytes reused for links
                auto n = a.array ? a.bytes : (a.bytes < stride ? a.bytes : stride);
                for (std::size_t i = 0; i < n; ++i)
                    if (i % stride >= link && (unsigned char)a.p[i] != 0xDD)
                        violate("C17", "free_fill_missing",
                                "byte %zu of a released %zu-byte allocation is 0x%02x, not the freed-memory "
                                "pattern (stride %zu)",
                                i, a.bytes, (unsigned)(unsigned char)a.p[i], stride);
                ++fill_checks_;
            }
            auto cap1 = S.o->reading(0);
            if (c.kind == K_POOL && a.delta > 0 && cap1 != cap0 + std::size_t(a.delta))
                violate("C04,C18", a.array ? "array_release_delta" : "node_release_delta",
                        "capacity_left %zu -> %zu on release, allocation had taken %lld (bytes=%zu node "
                        "size %zu)",
                        cap0, cap1, a.delta, a.bytes, stride);
            if (c.kind == K_COLL)
            {
                auto pc1   = S.o->reading(2, a.size);
                auto nodes = a.array ? (a.bytes + stride - 1) / stride : 1;
                if (pc1 != pc0 + nodes || cap1 != cap0)
                    violate("C04,C18", a.array ? "array_release_delta" : "node_release_delta",
                            "pool_capacity_left(%zu) %zu -> %zu on release of %zu node(s); arena capacity %zu "
                            "-> %zu",
                            a.size, pc0, pc1, nodes, cap0, cap1);
            }
        }
    }

    void Interp::op_free(long long victim)
    {
        if (!shadow_.size())
            return;
        auto  i = std::size_t(victim < 0 ? -victim : victim) % shadow_.size();
        auto& a = shadow_.nth(i);
        auto& S = objs_[a.obj];
        if (!S.o || S.husk)
            return;
        auto& c = S.o->caps;
        if (c.kind == K_TEMP || (c.kind == K_ITER && a.fam == MEMBER))
            return; // lifetime is the iteration count / the scope
        // (an iteration allocator's traits-level and composable deallocation do nothing, but they are legal calls and
        //  the composable one says whether the memory is the allocator's own: the allocation ends in the model)
        if (c.kind == K_STACK && a.fam == MEMBER)
            return; // no individual deallocation: lives until unwound
        if (c.kind == K_STATIC && a.fam == MEMBER)
        {
        }
        if (c.kind == K_ARENA)
        {
            // only the current (most recent) block can be returned
            Alloc* top = nullptr;
            shadow_.for_each(
                [&](Alloc& x)
                {
                    if (x.obj == a.obj && (!top || x.id > top->id))
                        top = &x;
                });
            shadow_.check(*top, cprop("C01"), "before release");
            do_free(shadow_.take(top->p));
            return;
        }
        shadow_.check(a, cprop("C01"), "before release");
        do_free(shadow_.take(a.p));
    }

    void Interp::op_free_all(int which, int order)
    {
        auto S = live_obj(which);
        if (!S)
            return;
        auto k = S->o->caps.kind;
        if (k != K_POOL && k != K_COLL && k != K_LOWLEVEL)
            return;
        int                idx = index_of(*S);
        std::vector<char*> ps;
        shadow_.for_each(
            [&](Alloc& a)
            {
                if (a.obj == idx)
                    ps.push_back(a.p);
            });
        switch (((order % 4) + 4) % 4)
        {
        case 1:
            std::reverse(ps.begin(), ps.end());
            break;
        case 2:
            std::sort(ps.begin(), ps.end());
            break;
        case 3:
        {
            Rng r(mix(0xfa11, std::uint64_t(order) + ps.size()));
            for (std::size_t i = ps.size(); i > 1; --i)
                std::swap(ps[i - 1], ps[r.below(i)]);
            break;
        }
        }
        for (auto p : ps)
        {
            shadow_.check(*shadow_.find(p), cprop("C01"), "before release");
            do_free(shadow_.take(p));
        }
    }

    //=== stack ===//
    void Interp::op_top(int which)
    {
        auto S = live_obj(which);
        if (!S || !S->o->caps.markers || S->markers.size() >= 12)
            return;
        Marker m;
        m.idx       = S->o->push_marker();
        m.cap       = S->o->reading(0);
        m.water     = shadow_.last_id();
        m.attempts  = S->attempts;
        m.successes = S->successes;
        m.t_size    = S->t_size;
        m.t_block   = S->t_block;
        m.block       = S->cur_block;
        m.block_known = S->cur_block_known;
        for (auto& o : S->markers)
            m.outer_len.push_back(o.tape.size());
        if (!S->markers.empty() && S->o->caps.kind != K_TEMP) // (scopes of a temporary stack have no public markers)
        {
            auto& prev = S->markers.back();
            int   c    = S->o->compare_markers(prev.idx, m.idx);
            if (c == 99)
                violate("C06", "marker_order", "the six comparison operators disagree with each other");
            if (m.attempts == prev.attempts && c != 0)
                violate("C06", "marker_order", "two markers with no allocation between compare %d", c);
            if (m.successes > prev.successes && c != -1)
                violate("C06", "marker_order", "older marker does not compare less than a newer one with "
                                               "%llu allocation(s) between (got %d)",
                        (unsigned long long)(m.successes - prev.successes), c);
            if (c > 0)
                violate("C06", "marker_order", "older marker compares greater than a newer one");
            // and against the oldest
            auto& first = S->markers.front();
            int   c0    = S->o->compare_markers(first.idx, m.idx);
            if (c0 > 0 || c0 == 99 || (m.successes > first.successes && c0 != -1))
                violate("C06", "marker_order", "oldest marker vs newest compares %d", c0);
        }
        S->markers.push_back(m);
        hash_.add(0x70);
    }

    void Interp::op_unwind(int which, long long mm, bool replay)
    {
        auto S = live_obj(which);
        if (!S || S->markers.empty())
            return;
        auto&  heap = SimHeap::get();
        int    idx  = index_of(*S);
        auto   mi   = std::size_t(mm < 0 ? -mm : mm) % S->markers.size();
        Marker M    = S->markers[mi];
        // everything younger than the marker is released by the unwind
        // (a stack's traits-level deallocation only books the bytes out of the leak count; in half of the unwinds the
        //  caller does that bookkeeping AFTER the unwind, when the memory may already lie in a cached block)
        std::vector<Alloc> late;
        if (S->o->caps.kind == K_STACK && S->o->caps.leak_tracked && (std::size_t(mm < 0 ? -mm : mm) / 5) % 2)
            shadow_.for_each(
                [&](Alloc& a)
                {
                    if (a.obj == idx && a.id > M.water && a.fam == TRAITS)
                        late.push_back(a);
                });
        shadow_.drop_if([&](const Alloc& a) { return a.obj == idx && a.id > M.water; });
        heap.begin_op(0);
        S->o->unwind(M.idx);
        auto rel = heap.op_releases();
        heap.end_op();
        after_sut_call("unwind");
        for (auto& a : late)
        {
            Req r{TRAITS, a.array, a.count, a.size, a.align};
            heap.begin_op(0);
            S->o->deallocate(r, a.p);
            heap.end_op();
            S->leak_net -= (long long)a.bytes;
            stats().hit("reach.stack_deallocation_booked_after_unwind");
        }
        if (!late.empty())
            after_sut_call("traits-level deallocation after the unwind");
        hash_.add(0x71);
        hash_.add(mi);
        if (mi + 1 < S->markers.size())
            stats().hit("reach.unwind_nested");
        nontrivial_release_ = true;
        S->last_end_valid = false;
        // (a temporary_allocator whose shrink_to_fit() was requested purges the cache when its scope ends)
        if (S->o->caps.kind == K_TEMP && S->t_model)
        {
            // scopes end innermost first; each gives its blocks to the cache, a flagged one then empties the cache
            std::size_t expected = 0, size = S->t_size, cached = S->t_cached;
            bool        flagged  = false;
            for (std::size_t k = S->markers.size(); k-- > mi;)
            {
                cached += size - S->markers[k].t_size;
                size = S->markers[k].t_size;
                if (S->markers[k].t_flag)
                {
                    expected += cached;
                    cached  = 0;
                    flagged = true;
                }
            }
            if (rel != expected)
                violate("C05,C06", flagged ? "scope_shrink_wrong" : "unwind_released_upstream",
                        "ending the scopes of a temporary stack returned %u block(s) upstream, expected %zu "
                        "(%s shrink_to_fit() requested; %zu block(s) in use before, %zu at the scope's start, %zu "
                        "cached before)",
                        rel, expected, flagged ? "with" : "no", S->t_size, size, S->t_cached);
            if (flagged)
                stats().hit(expected ? "reach.temp_scope_shrink_released" : "reach.temp_scope_shrink_nothing");
            S->t_size   = size;
            S->t_cached = cached;
            S->t_block  = M.t_block;
        }
        if (rel && S->o->caps.kind != K_TEMP)
            violate("C06,C05", "unwind_released_upstream", "unwind returned %u block(s) upstream instead of "
                                                           "caching them",
                    rel);
        S->o->truncate_markers(M.idx + 1);
        S->markers.resize(mi + 1);
        S->markers[mi].t_flag = false; // a fresh scope takes the place of the ended one
        S->markers[mi].grew_next = 0;
        S->markers[mi].grew_dead = false;
        S->cur_block             = M.block;
        S->cur_block_known       = M.block_known;
        // "less" is defined by allocations since the marker with no unwind between: the counts restart here
        S->attempts  = M.attempts;
        S->successes = M.successes;
        for (std::size_t k = 0; k < mi; ++k)
            if (S->markers[k].tape.size() > M.outer_len[k])
                S->markers[k].tape.resize(M.outer_len[k]);
        auto cap = S->o->reading(0);
        if (cap != M.cap)
            violate("C06", "unwind_capacity", "capacity_left after unwind is %zu, was %zu when the marker "
                                              "was taken",
                    cap, M.cap);
        if (!S->o->top_equals(M.idx))
            violate("C06", "unwind_top", "top() after unwind does not equal the marker");
        if (S->o->caps.kind == K_STACK && M.grew_next && !M.grew_dead)
        {
            // the block the stack grew into after the marker is cached now and comes next: next_capacity() is what
            // it was right before that growth
            auto next = S->o->reading(1);
            if (next != M.grew_next)
                violate("C06,C18", "unwind_next_capacity",
                        "next_capacity() after unwind is %zu; it was %zu before the stack grew into the block that "
                        "is cached now",
                        next, M.grew_next);
            stats().hit("reach.unwind_next_capacity_checked");
        }
        shadow_.check_all(cprop("C06,C01"), "after unwind (older allocations)");
        auto tape = M.tape;
        bool ok   = M.tape_valid && !(S->o->caps.kind == K_TEMP && S->shrunk);
        S->markers[mi].tape.clear();
        S->markers[mi].tape_valid = true;
        if (replay && ok && !tape.empty())
        {
            stats().hit("reach.replay");
            for (auto& t : tape)
            {
                Alloc* a   = nullptr;
                bool   got = do_alloc(*S, idx, t.r, 0, &a, true);
                if (last_calls_)
                    violate("C06,C05", "regrow_requested_upstream",
                            "replaying the requests made after the marker needed %u upstream request(s) "
                            "although the unwound blocks were cached",
                            last_calls_);
                if (!got)
                    violate("C06", "replay_mismatch", "a request that succeeded after the marker was taken "
                                                      "fails when replayed after unwind");
                if (heap.off(a->p) != t.off)
                    violate("C06", "replay_mismatch", "replayed request got +%zu, originally +%zu (size %zu "
                                                      "align %zu)",
                            heap.off(a->p), t.off, a->bytes, t.r.align);
            }
        }
    }

    void Interp::op_shrink(int which, long long depth)
    {
        auto S = live_obj(which);
        if (!S || !S->o->caps.shrink)
            return;
        auto& heap = SimHeap::get();
        // (temporary stack: the request goes to the allocator of a drawn scope, the innermost one or an outer one)
        std::size_t scope = 0;
        bool        temp  = S->o->caps.kind == K_TEMP && !S->markers.empty();
        if (temp)
        {
            scope = S->markers.size() - 1 - std::size_t(depth < 0 ? -depth : depth) % S->markers.size();
            if (scope + 1 != S->markers.size())
                stats().hit("reach.temp_shrink_requested_on_outer_scope");
        }
        heap.begin_op(0);
        if (temp)
            S->o->shrink_scope(S->markers[scope].idx);
        else
            S->o->shrink_to_fit();
        auto rel = heap.op_releases();
        heap.end_op();
        after_sut_call("shrink_to_fit");
        if (rel)
            stats().hit("reach.shrink_released_blocks");
        for (auto& m : S->markers)
        {
            m.tape_valid = false;
            m.grew_dead  = true;
        }
        S->shrunk = true;
        if (S->o->caps.kind == K_TEMP)
        {
            if (rel)
                violate("C05", "scope_shrink_wrong", "temporary_allocator::shrink_to_fit() released %u block(s) at "
                                                     "once; it takes effect when the scope ends",
                        rel);
            if (S->markers.empty())
                S->t_base_flag = true;
            else
                S->markers[scope].t_flag = true;
        }
        hash_.add(0x72);
        if (S->o->caps.kind == K_ARENA && S->o->reading(7) != 0)
            violate("C05", "cache_not_purged", "cache_size() is %zu after shrink_to_fit", S->o->reading(7));
        shadow_.check_all(cprop("C01"), "after shrink_to_fit");
    }

    //=== iteration ===//
    void Interp::op_next(int which)
    {
        auto S = live_obj(which);
        if (!S || !S->o->caps.iter)
            return;
        auto& heap = SimHeap::get();
        int   idx  = index_of(*S);
        auto  N    = (long long)S->o->caps.n_iter;
        ++S->iter;
        // allocations born N iterations ago end now
        shadow_.drop_if([&](const Alloc& a) { return a.obj == idx && a.tag <= S->iter - N; });
        heap.begin_op(0);
        S->o->next_iteration();
        heap.end_op();
        after_sut_call("next_iteration");
        hash_.add(0x73);
        nontrivial_release_ = true;
        S->last_end_valid = false;
        auto cur = S->o->reading(5);
        if (cur != std::size_t(S->iter % N))
            violate("C07", "iteration_index", "cur_iteration() is %zu after %lld switches (N=%lld)", cur,
                    S->iter, N);
        auto cap = S->o->reading(3, cur);
        if (cap != S->full_cap[cur])
            violate("C07", "region_capacity", "region %zu has capacity %zu after being switched to, its full "
                                              "capacity at construction was %zu",
                    cur, cap, S->full_cap[cur]);
        shadow_.check_all(cprop("C07,C01"), "after next_iteration (younger allocations)");
    }

    //=== moves ===//
    void Interp::op_move(int which, int where)
    {
        auto S = live_obj(which);
        if (!S || !S->o->caps.movable)
            return;
        auto& heap = SimHeap::get();
        void* slot = new_slot(S->o->object_size(), where);
        heap.begin_op(0);
        Obj* n = S->o->move_construct(slot);
        heap.end_op();
        ++moves_done_;
        stats().hit("reach.move_construct");
        ObjSt husk;
        husk.o    = S->o;
        husk.husk = true;
        husk.slot = S->slot;
        husks_.push_back(husk);
        S->o    = n;
        S->slot = slot;
        after_sut_call("move construction");
        hash_.add(0x74);
        shadow_.check_all("C12,C01", "after move construction");
    }

    void Interp::op_move_assign(int dir)
    {
        auto& T = objs_[dir & 1];
        auto& F = objs_[1 - (dir & 1)];
        if (!T.o || !F.o || F.husk || !F.o->caps.assignable || !T.o->caps.assignable)
            return;
        auto& heap = SimHeap::get();
        int   ti = index_of(T), fi = index_of(F);
        // the target's memory goes away: its allocations end here (a stateless low-level allocator is only a
        // handle: what it handed out stays valid and is returned through the surviving handle)
        if (T.o->caps.kind == K_LOWLEVEL)
        {
            if (!T.husk)
                op_free_all(ti, 0);
        }
        drop_allocs_of(ti);
        int  old_owner = T.o->owner;
        bool t_husk    = T.husk;
        heap.begin_op(0);
        T.o->move_assign_from(*F.o);
        heap.end_op();
        ++moves_done_;
        stats().hit(t_husk ? "reach.move_assign_onto_moved_from" : "reach.move_assign");
        T.o->owner = F.o->owner;
        after_sut_call("move assignment");
        hash_.add(0x75);
        if (!t_husk && old_owner >= OWNER_FIRST && old_owner != T.o->owner)
            if (auto n = heap.live_count_owner(old_owner))
                violate("C12,C05", "block_leak", "move assignment dropped the target's memory without "
                                                 "returning %zu upstream block(s)",
                        n);
        // model state travels with the memory
        ObjSt newT = F;
        newT.o     = T.o;
        newT.slot  = T.slot;
        newT.husk  = false;
        ObjSt newF;
        newF.o    = F.o;
        newF.slot = F.slot;
        newF.husk = true;
        newF.cfg  = T.cfg; // keeps the storage of the (now dead) target memory; never reused in this run
        T         = newT;
        F         = newF;
        retag(fi, ti);
        shadow_.check_all("C12,C01", "after move assignment");
    }

    void Interp::op_swap()
    {
        auto A = live_obj(0), B = live_obj(1);
        if (!A || !B || !A->o->caps.swappable)
            return;
        auto& heap = SimHeap::get();
        heap.begin_op(0);
        A->o->swap_with(*B->o);
        heap.end_op();
        ++moves_done_;
        stats().hit("reach.swap");
        after_sut_call("swap");
        hash_.add(0x76);
        // everything but the object identity (adapter, slot) changes sides
        std::swap(A->o->owner, B->o->owner);
        ObjSt a = *A, b = *B;
        *A      = b;
        A->o    = a.o;
        A->slot = a.slot;
        *B      = a;
        B->o    = b.o;
        B->slot = b.slot;
        // stack markers are kept in the adapters: exchange them as well
        A->o->swap_markers(*B->o);
        retag(0, 2);
        retag(1, 0);
        retag(2, 1);
        shadow_.check_all("C12,C01", "after swap");
    }

    //=== new_allocator and the program's std::new_handler ===//
    namespace
    {
        struct NewHandlerCase
        {
            unsigned calls = 0;
            int      mode  = 0;
            bool     stale = false;
        } g_nh;
        void nh_handler()
        {
            ++g_nh.calls;
            if (g_nh.calls > 1)
            {
                // (only reachable when the caller kept a handler that is not installed any more)
                g_nh.stale = true;
                SimHeap::get().set_exhausted(false); // ends the retry loop
                return;
            }
            if (g_nh.mode == 0)
                std::set_new_handler(nullptr); // has nothing to free: gives up by removing itself
            else if (g_nh.mode == 2)
                throw std::bad_alloc(); // the other standard way of giving up
            else
                SimHeap::get().set_exhausted(false); // frees its reserve: the retry succeeds
        }
    } // namespace

    void Interp::op_newhandler(const Op& op)
    {
        // nh obj mode size: operator new has no memory; a std::new_handler either frees some or removes itself
        auto S = live_obj(op.arg(0));
        if (!S || S->o->name != "ll.new")
            return;
        auto& heap = SimHeap::get();
        g_nh       = NewHandlerCase();
        g_nh.mode  = int(op.arg(1)) % 3;
        Req         r{int(op.arg(3)) % 2 ? MEMBER : TRAITS, false, 1, 8 + std::size_t(op.arg(2)) % 200, 8};
        std::size_t usable = 0;
        void*       p      = nullptr;
        bool        threw = false, lib_oom = false;
        std::set_new_handler(&nh_handler);
        heap.begin_op(0);
        heap.set_exhausted(true);
        try
        {
            p = S->o->allocate(r, usable);
        }
        catch (const fm::out_of_memory&)
        {
            threw = lib_oom = true;
        }
        catch (const std::bad_alloc&)
        {
            threw = true;
        }
        heap.set_exhausted(false);
        std::set_new_handler(nullptr);
        if (p)
            S->o->deallocate(r, p);
        heap.end_op();
        hash_.add(0x9A + g_nh.mode * 2 + (threw ? 1 : 0));
        stats().hit(g_nh.mode == 1 ? "reach.new_handler_freed_memory" :
                    g_nh.mode == 2 ? "reach.new_handler_threw_bad_alloc" :
                                     "reach.new_handler_removed_itself");
        if (g_nh.stale)
            violate("C03", "new_handler_stale", "new_allocator called a std::new_handler %u times although it had "
                                                "removed itself during its first call (std::get_new_handler() "
                                                "must be asked before every retry)",
                    g_nh.calls);
        if (g_nh.calls != 1)
            violate("C03", "new_handler_calls", "operator new failed once; the installed std::new_handler was "
                                                "called %u times",
                    g_nh.calls);
        if (g_nh.mode == 0 && !lib_oom)
            violate("C03", "failure_absorbed", "no memory and no std::new_handler left: new_allocator %s instead of "
                                               "throwing out_of_memory",
                    threw ? "threw another exception" : "returned");
        if (g_nh.mode == 2 && !threw)
            violate("C03", "failure_absorbed", "no memory and a std::new_handler that gave up by throwing "
                                               "std::bad_alloc: new_allocator returned %s instead of throwing",
                    p ? "a pointer" : "null");
        if (g_nh.mode == 1 && (threw || !p))
            violate("C03", "spurious_failure", "the std::new_handler freed memory, the retry must succeed; "
                                               "new_allocator %s",
                    threw ? "threw" : "returned null");
        after_sut_call("allocation with a std::new_handler");
    }

    //=== limits ===//
    void Interp::op_over(const Op& op)
    {
        // over obj kind fam
        auto S = live_obj(op.arg(0));
        if (!S)
            return;
        auto& c = S->o->caps;
        // the low-level allocators leave the limits to the caller (traits do not check them): out of C18's scope
        if (c.kind == K_ARENA || c.kind == K_LIST || c.kind == K_LOWLEVEL)
            return;
        int fam = int(op.arg(2)) % 2 ? COMP : TRAITS;
        if (fam == COMP && !c.comp)
            fam = TRAITS;
        if (fam == TRAITS && !c.traits)
            return;
        auto mn = S->o->max_node(), ma = S->o->max_array(), ml = S->o->max_align();
        Req  r{fam, false, 1, 1, 1};
        const std::size_t HUGE_SZ = std::size_t(1) << 62;
        const char* what = "";
        switch (int(op.arg(1)) % 4)
        {
        case 0:
            if (mn >= HUGE_SZ)
                return;
            r.size = mn + 1 + std::size_t(op.arg(3)) % 64;
            what   = "max_node_size";
            break;
        case 1:
            if (!c.array || ma >= HUGE_SZ)
                return;
            r.array = true;
            r.size  = c.kind == K_POOL ? S->o->reading(4) : (c.kind == K_COLL ? 8 : 16);
            if (c.kind == K_COLL && r.size > mn)
                r.size = mn;
            r.count = ma / r.size + 1 + std::size_t(op.arg(3)) % 8;
            what    = "max_array_size";
            break;
        case 2:
            if (ml >= HUGE_SZ)
                return;
            r.align = ml * 2;
            r.size  = c.kind == K_POOL ? S->o->reading(4) : 16;
            if (r.size > mn)
                r.size = mn;
            what = "max_alignment";
            break;
        default:
            if (c.kind == K_LOWLEVEL)
                return;
            r.size = HUGE_SZ + 17;
            what   = "huge";
            break;
        }
        Alloc* a   = nullptr;
        in_over_   = true;
        bool got;
        try
        {
            got = do_alloc(*S, index_of(*S), r, 0, &a, false);
        }
        catch (...)
        {
            in_over_ = false;
            throw;
        }
        in_over_ = false;
        stats().hit(std::string("reach.over_limit.") + what);
        if (got && c.bounded_max)
            violate("C18,C03", "above_max_succeeded", "a request above %s (node max %zu, array max %zu, "
                                                      "alignment max %zu) succeeded: size=%zu count=%zu "
                                                      "align=%zu",
                    what, mn, ma, ml, r.size, r.count, r.align);
    }

    //=== C04 episodes and cycles ===//
    void Interp::op_mark_cap(int which)
    {
        auto S = live_obj(which);
        if (!S || (S->o->caps.kind != K_POOL && S->o->caps.kind != K_COLL))
            return;
        int  idx = index_of(*S);
        bool any = false;
        shadow_.for_each([&](Alloc& a) { any = any || a.obj == idx; });
        if (any)
            return;
        snapshot_caps(*S, S->cap_mark);
        S->cap_mark_valid = true;
    }

    void Interp::op_check_cap(int which)
    {
        auto S = live_obj(which);
        if (!S || !S->cap_mark_valid)
            return;
        int  idx = index_of(*S);
        bool any = false;
        shadow_.for_each([&](Alloc& a) { any = any || a.obj == idx; });
        if (any)
            return;
        std::vector<std::size_t> now;
        snapshot_caps(*S, now);
        stats().hit("reach.episode_checked");
        for (std::size_t i = 0; i < now.size() && i < S->cap_mark.size(); ++i)
            if (now[i] < S->cap_mark[i])
                violate("C04", "capacity_lost", "everything released, but capacity reading #%zu is %zu, was "
                                                "%zu at the start of the episode",
                        i, now[i], S->cap_mark[i]);
    }

    void Interp::op_cycle(const Op& op)
    {
        // cycle obj kind n reps fam size
        auto S = live_obj(op.arg(0));
        if (!S || (S->o->caps.kind != K_POOL && S->o->caps.kind != K_COLL))
            return;
        auto& heap = SimHeap::get();
        int   idx  = index_of(*S);
        int   kind = int(op.arg(1)) % 4;
        // kind 3: a mixed cycle {node, node, array of 2}; only pools that keep their free nodes ordered promise
        // that it finds the same memory again (an unordered node list may have to grow for the array)
        if (kind == 3 && (!S->o->caps.array || S->o->name.find(".array") == std::string::npos))
            kind = 1;
        if (kind == 2 && !S->o->caps.array)
            kind = 1;
        auto n    = 1 + std::size_t(op.arg(2)) % 12;
        auto reps = 2 + std::size_t(op.arg(3)) % 6;
        Req  r    = sanitize(*S, int(op.arg(4)) % 2, kind == 2, (long long)n - 1, op.arg(5), 0);
        if (r.fam == COMP)
            r.fam = TRAITS;
        Req r2 = r; // (kind 3: the array of two nodes of the same size)
        if (kind == 3)
        {
            r = sanitize(*S, int(op.arg(4)) % 2, false, 0, op.arg(5), 0);
            if (r.fam == COMP)
                r.fam = TRAITS;
            r2       = r;
            r2.array = true;
            r2.count = 2;
            if (S->o->caps.kind == K_POOL)
                r.size = r2.size = S->o->reading(4); // whole nodes
            stats().hit("reach.cycle_mixed_nodes_and_array");
        }
        std::vector<std::size_t> first, now;
        std::uint64_t            req_first = 0;
        bool                     settled   = false;
        for (std::size_t rep = 0; rep < reps; ++rep)
        {
            std::vector<char*> got;
            std::size_t        want = kind == 1 ? n : kind == 3 ? 3 : 1;
            for (std::size_t i = 0; i < want; ++i)
            {
                Alloc* a = nullptr;
                if (!do_alloc(*S, idx, kind == 3 && i == 2 ? r2 : r, 0, &a, false))
                    break;
                got.push_back(a->p);
            }
            if (got.size() != want)
            {
                // could not even build the cycle (exhausted fixed source): give everything back, no claim
                for (auto p : got)
                    do_free(shadow_.take(p));
                return;
            }
            if ((op.arg(3) / 8) % 2)
                std::reverse(got.begin(), got.end());
            for (auto p : got)
            {
                shadow_.check(*shadow_.find(p), cprop("C01"), "before release");
                do_free(shadow_.take(p));
            }
            snapshot_caps(*S, now);
            if (kind == 3)
            {
                // With an array in the cycle the first repetitions may legitimately grow (the nodes taken first can
                // split the only run of adjacent free nodes). But an ordered list is a function of the set of its
                // free nodes: once a repetition has ended where it began, every later one repeats it exactly.
                bool grew = rep > 0 && (heap.total_requests() != req_first || now != first);
                if (rep > 0 && !grew)
                    settled = true;
                else if (grew && settled)
                    violate("C04", "cycle_grows", "a cycle {node, node, array of 2} (size %zu) on a pool that keeps "
                                                  "its free nodes ordered had repeated without growth, repetition "
                                                  "%zu grew the pool (%llu upstream request(s))",
                            r.size, rep + 1, (unsigned long long)(heap.total_requests() - req_first));
                first     = now;
                req_first = heap.total_requests();
                continue;
            }
            if (rep == 0)
            {
                first     = now;
                req_first = heap.total_requests();
            }
            else
            {
                if (heap.total_requests() != req_first)
                    violate("C04", "cycle_grows", "repetition %zu of an allocate/release cycle (kind %d, n "
                                                  "%zu, size %zu) made %llu upstream request(s)",
                            rep + 1, kind, n, r.size,
                            (unsigned long long)(heap.total_requests() - req_first));
                for (std::size_t i = 0; i < now.size(); ++i)
                    if (now[i] != first[i])
                        violate("C04", "cycle_grows", "capacity reading #%zu changed from %zu to %zu between "
                                                      "repetition 1 and %zu of an allocate/release cycle "
                                                      "(kind %d, n %zu, size %zu)",
                                i, first[i], now[i], rep + 1, kind, n, r.size);
            }
        }
        stats().hit("reach.cycle");
    }

    void Interp::op_mbs(const Op&)
    {
        // the object was built with block_size = min_block_size(node_size, n): n nodes must come without growth
        auto S = live_obj(0);
        if (!S)
            return;
        auto n = S->cfg.mbs_n;
        if (!n || S->successes)
            return;
        auto& c = S->o->caps;
        if (c.kind == K_POOL)
        {
            Req r{MEMBER, false, 1, S->o->reading(4), 1};
            auto cap = S->o->reading(0);
            if (cap / S->o->reading(4) < n)
                violate("C18", "min_block_size_insufficient",
                        "pool built with min_block_size(%zu, %zu) reports capacity for %zu node(s)",
                        S->cfg.node_size, n, cap / S->o->reading(4));
            for (std::size_t i = 0; i < n; ++i)
            {
                Alloc* a = nullptr;
                bool   g = do_alloc(*S, 0, r, 0, &a, false);
                if (!g || last_calls_)
                    violate("C18", "min_block_size_insufficient",
                            "pool built with min_block_size(%zu, %zu): allocation %zu %s", S->cfg.node_size,
                            n, i + 1, g ? "needed an upstream request" : "failed");
            }
            stats().hit("reach.min_block_size_checked");
        }
        else if (c.kind == K_ARENA)
        {
            Req    r{MEMBER, false, 1, 1, 1};
            Alloc* a = nullptr;
            bool   g = do_alloc(*S, 0, r, 0, &a, false);
            if (!g || a->bytes < n)
                violate("C18", "min_block_size_insufficient", "arena built with min_block_size(%zu): its first block "
                                                              "%s (%zu usable bytes)",
                        n, g ? "is smaller" : "could not be allocated", g ? a->bytes : std::size_t(0));
            stats().hit("reach.min_block_size_checked");
        }
        else if (c.kind == K_STACK && FENCE != 0)
        {
            // with fences an allocation costs its size plus two fences: the capacity figure must cover n, and what
            // the figure promises must be servable
            auto cap = S->o->reading(0);
            if (cap < n)
                violate("C18", "min_block_size_insufficient", "stack built with min_block_size(%zu) reports "
                                                              "capacity_left() %zu",
                        n, cap);
            if (n > 2 * FENCE)
            {
                Req    r{MEMBER, false, 1, n - 2 * FENCE, 1};
                Alloc* a = nullptr;
                bool   g = do_alloc(*S, 0, r, 0, &a, false);
                if (!g || last_calls_)
                    violate("C18", "min_block_size_insufficient", "stack built with min_block_size(%zu): "
                                                                  "allocation of %zu bytes plus fences %s",
                            n, n - 2 * FENCE, g ? "needed an upstream request" : "failed");
            }
            stats().hit("reach.min_block_size_checked");
        }
        else if (c.kind == K_STACK && FENCE == 0)
        {
            Req    r{MEMBER, false, 1, n, 1};
            Alloc* a = nullptr;
            bool   g = do_alloc(*S, 0, r, 0, &a, false);
            if (!g || last_calls_)
                violate("C18", "min_block_size_insufficient", "stack built with min_block_size(%zu): "
                                                              "allocation of %zu bytes %s",
                        n, n, g ? "needed an upstream request" : "failed");
            stats().hit("reach.min_block_size_checked");
        }
    }

    void Interp::op_reserve(const Op& op)
    {
        auto S = live_obj(op.arg(0));
        if (!S || S->o->caps.kind != K_COLL)
            return;
        auto& heap = SimHeap::get();
        auto  mx   = S->o->max_node();
        auto  sz   = 1 + std::size_t(op.arg(1)) % mx;
        auto  nc   = S->o->reading(1);
        if (nc < 64 || nc > (std::size_t(1) << 40))
            return;
        auto cap = 32 + std::size_t(op.arg(2)) % (nc / 2);
        heap.begin_op(S->o->caps.faultable ? op.fail : 0);
        heap.clear_fault_fired();
        Failure f;
        try
        {
            S->o->reserve(sz, cap);
        }
        catch (...)
        {
            f = classify_current_exception();
        }
        heap.end_op();
        after_sut_call("reserve");
        hash_.add(0x77);
        if (f.threw && !f.is_bad_alloc)
            violate("C03", "wrong_exception", "reserve threw %s", f.type.c_str());
        if (f.threw)
            S->failure_seen = true;
        shadow_.check_all(cprop("C01"), "after reserve");
    }

    //=== C08: sibling allocators ===//
    void Interp::op_foreign(const Op& op)
    {
        // tdf victim: ask the allocator that does NOT own the victim to try_deallocate it
        if (!shadow_.size())
            return;
        auto  i = std::size_t(op.arg(0) < 0 ? -op.arg(0) : op.arg(0)) % shadow_.size();
        auto& a = shadow_.nth(i);
        auto  X = live_obj(1 - a.obj);
        auto  Y = live_obj(a.obj);
        if (!X || !Y || !X->o->caps.comp)
            return;
        auto& heap = SimHeap::get();
        Req   r{COMP, a.array, a.count, a.size, a.align};
        // sometimes with a shape X could never have served (the answer is "not mine" all the same)
        auto shape = (std::size_t(op.arg(0) < 0 ? -op.arg(0) : op.arg(0)) / 7) % 5;
        if (shape == 1)
        {
            auto ma = X->o->max_align();
            if (ma && ma < (std::size_t(1) << 20))
                r.align = ma * 2;
            stats().hit("reach.foreign_try_deallocate_overaligned");
        }
        else if (shape == 2 && !r.array)
        {
            auto mn = X->o->max_node();
            if (mn < (std::size_t(1) << 30))
                r.size = mn + 1;
            stats().hit("reach.foreign_try_deallocate_oversized");
        }
        std::vector<std::size_t> before, after;
        snapshot_caps(*X, before);
        auto cap0 = X->o->reading(0);
        heap.begin_op(0);
        bool ok = X->o->deallocate(r, a.p);
        heap.end_op();
        after_sut_call("try_deallocate of a sibling's memory");
        hash_.add(0x78);
        stats().hit("reach.foreign_try_deallocate");
        // adjacency reach: does the victim touch one of X's blocks?
        if (ok)
            violate("C08", "foreign_dealloc_accepted",
                    "try_deallocate returned true for memory handed out by a sibling allocator (+%zu, %zu "
                    "bytes)",
                    heap.off(a.p), a.bytes);
        snapshot_caps(*X, after);
        if (before != after || cap0 != X->o->reading(0))
            violate("C08", "foreign_dealloc_changed_state", "try_deallocate returned false but the allocator's "
                                                            "capacity readings changed");
        shadow_.check(a, "C08,C01", "after a refused try_deallocate");
    }
} // namespace hs

namespace hs
{
    //=== C17: fence corruption on the low-level allocators ===//
    std::size_t Interp::fence_of(ObjSt& S)
    {
        if (!FENCE || S.o->caps.kind != K_LOWLEVEL)
            return 0;
        return S.o->name == "ll.virtual" ? 4096 : 16; // page resp. max_alignment, whatever DEBUG_FENCE says
    }

    void Interp::op_corrupt(const Op& op)
    {
        // cor victim side offset value: the caller writes one byte into a fence of a live node
        if (!shadow_.size())
            return;
        auto  i = std::size_t(op.arg(0) < 0 ? -op.arg(0) : op.arg(0)) % shadow_.size();
        auto& a = shadow_.nth(i);
        auto  S = live_obj(a.obj);
        if (!S)
            return;
        auto f = fence_of(*S);
        if (!f)
            return;
        bool pre = op.arg(1) % 2 == 0;
        auto off = std::size_t(op.arg(2)) % f;
        auto val = (unsigned char)op.arg(3);
        char* at = pre ? a.p - f + off : a.p + a.bytes + off;
        if (val == 0xFD)
            return; // same as the fence pattern: not a corruption
        *at = (char)val;
        auto& low = pre ? a.cor_pre : a.cor_post;
        if (!low || at < low)
            low = at;
        stats().hit("fault.fence_byte_written");
        hash_.add(0xC0 + (pre ? 1 : 0));
    }

    void Interp::op_corsweep(const Op& op)
    {
        // corsweep obj size_index: complete table side x offset x value for one node size
        auto S = live_obj(op.arg(0));
        if (!S)
            return;
        auto f = fence_of(*S);
        if (!f)
            return;
        static const std::size_t sizes[] = {1, 7, 8, 16, 24, 100};
        auto                     size    = sizes[std::size_t(op.arg(1)) % 6];
        int                      idx     = index_of(*S);
        int                      fam     = op.arg(2) % 2 ? TRAITS : MEMBER;
        std::uint64_t            cases   = 0;
        for (int side = 0; side < 2; ++side)
            for (std::size_t off = 0; off < f; ++off)
            {
                // the page-sized fences of virtual memory: first and last 24 offsets and every 97th
                if (f > 64 && off >= 24 && off + 24 < f && off % 97)
                    continue;
                for (unsigned val = 0; val < 256; ++val)
                {
                    if (val == 0xFD)
                        continue;
                    if (f > 64 && val % 16 != int(off % 16) && val != 0 && val != 255)
                        continue;
                    Req    r{fam, false, 1, size, 1};
                    Alloc* a = nullptr;
                    if (!do_alloc(*S, idx, r, 0, &a, false))
                        return;
                    char* at = side == 0 ? a->p - f + off : a->p + a->bytes + off;
                    *at      = (char)val;
                    (side == 0 ? a->cor_pre : a->cor_post) = at;
                    shadow_.check(*a, "C01", "before release");
                    do_free(shadow_.take(a->p));
                    ++cases;
                }
            }
        stats().hit("reach.fence_table_cases", cases);
        stats().hit("reach.fence_table_complete." + S->o->name + "." + std::to_string(size));
    }
} // namespace hs

namespace hs
{
    //=== C08: memory of some other allocator that touches one of X's blocks ===//
    void Interp::op_foreign_adjacent(const Op& op)
    {
        // tdfx obj block side size array: a neighbour allocation that starts exactly one past the end of one of
        // X's upstream blocks (side 0) or ends exactly at its begin (side 1), e.g. a node of a low-level allocator
        // or of a static_allocator that happens to be placed there
        auto X = live_obj(op.arg(0));
        if (!X || !X->o->caps.comp || X->o->owner < OWNER_MALLOC)
            return;
        auto& heap   = SimHeap::get();
        auto  blocks = heap.blocks_of(X->o->owner);
        if (blocks.empty())
            return;
        auto        b    = blocks[std::size_t(op.arg(1)) % blocks.size()];
        std::size_t size = 1 + std::size_t(op.arg(3)) % 64;
        Req         r    = sanitize(*X, COMP, op.arg(4) % 2 != 0, 1, op.arg(3), 0);
        size             = r.array ? r.count * r.size : r.size;
        bool        after = op.arg(2) % 2 == 0;
        if (!after && b.first < size)
            return;
        std::size_t at = after ? b.first + b.second : b.first - size;
        void*       p  = heap.harness_alloc_at(at, size);
        if (!p)
            return; // something else lives there
        std::vector<std::size_t> before, now;
        snapshot_caps(*X, before);
        auto cap0 = X->o->reading(0);
        std::memset(p, 0x3C, size);
        heap.begin_op(0);
        bool ok = X->o->deallocate(r, p);
        heap.end_op();
        after_sut_call("try_deallocate of a neighbouring allocator's memory");
        hash_.add(0x79);
        stats().hit(after ? "reach.foreign_adjacent_after_block" : "reach.foreign_adjacent_before_block");
        if (ok)
            violate("C08", "foreign_dealloc_accepted",
                    "try_deallocate returned true for memory that %s one of the allocator's blocks and belongs "
                    "to somebody else",
                    after ? "starts exactly one past the end of" : "ends exactly at the begin of");
        snapshot_caps(*X, now);
        if (before != now || cap0 != X->o->reading(0))
            violate("C08", "foreign_dealloc_changed_state", "try_deallocate returned false but the allocator's "
                                                            "capacity readings changed");
        for (std::size_t i = 0; i < size; ++i)
            if (static_cast<unsigned char*>(p)[i] != 0x3C)
                violate("C08", "foreign_dealloc_changed_state", "try_deallocate returned false but wrote into "
                                                                "the neighbour's memory");
        heap.harness_free(p);
    }
} // namespace hs

namespace hs
{
    // takes single nodes until the pool's free list is exactly empty (without growing it): the state in which
    // "has no free node" and "has no memory" differ
    void Interp::op_drain(const Op& op)
    {
        auto S = live_obj(op.arg(0));
        if (S && S->o->caps.kind == K_COLL && S->o->caps.comp)
        {
            // a collection: nodes of one size through the composable family until it says no (no growth: the
            // reservations use up the block, its rest goes to the bucket)
            int  idx = index_of(*S);
            auto mx  = S->o->max_node();
            auto sz  = op.arg(1) % 2 ? 1 + std::size_t(op.arg(0) / 2) % 8 : 1 + std::size_t(op.arg(0) / 2) % mx;
            Req  r{COMP, false, 1, sz, 1};
            for (int i = 0; i < 1500; ++i)
                if (!do_alloc(*S, idx, r, 0, nullptr, false))
                    break;
            stats().hit("reach.collection_drained_without_growth");
            return;
        }
        if (!S || S->o->caps.kind != K_POOL)
            return;
        int  idx = index_of(*S);
        auto ns  = S->o->reading(4);
        for (int i = 0; i < 3000 && S->o->reading(0) >= ns; ++i)
        {
            Req r{op.arg(1) % 2 ? TRAITS : MEMBER, false, 1, ns, 1};
            if (!do_alloc(*S, idx, r, 0, nullptr, false))
                break;
        }
        stats().hit("reach.pool_drained");
    }

    // stack-like allocators: one request for exactly what capacity_left() announces (the last byte of the block or
    // region is used); it must be served from the current block
    void Interp::op_fill(const Op& op)
    {
        auto S = live_obj(op.arg(0));
        if (!S)
            return;
        auto& c = S->o->caps;
        if (c.kind != K_STACK && c.kind != K_ITER && c.kind != K_STATIC)
            return;
        auto cap = S->o->reading(0);
        if (cap <= 2 * FENCE || cap > (std::size_t(1) << 20))
            return;
        auto size = cap - 2 * FENCE;
        if (size > S->o->max_node())
            return;
        Req    r{op.arg(1) % 2 ? TRAITS : MEMBER, false, 1, size, 1};
        Alloc* a   = nullptr;
        bool   got = do_alloc(*S, index_of(*S), r, 0, &a, false);
        if (!got)
            violate("C18,C02", "capacity_left_not_usable", "capacity_left() is %zu but a request for %zu byte(s) at "
                                                           "alignment 1 (plus %zu fence bytes) failed",
                    cap, size, 2 * FENCE);
        if (last_calls_)
            violate("C18,C02", "capacity_left_not_usable", "capacity_left() is %zu but a request for %zu byte(s) at "
                                                           "alignment 1 (plus %zu fence bytes) made the allocator grow",
                    cap, size, 2 * FENCE);
        if (S->o->reading(0) != 0 && c.kind != K_STACK)
            violate("C18", "counter_delta", "capacity_left() is %zu after a request for all of it", S->o->reading(0));
        stats().hit("reach.filled_to_the_last_byte");
    }
} // namespace hs
