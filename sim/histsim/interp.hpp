#pragma once
#include "sut.hpp"
#include "../kernel/engine.hpp"
#include "../kernel/shadow.hpp"

namespace hs
{
    // Recording handlers (installed once per process; they never throw, never abort).
    struct Handlers
    {
        unsigned       leak_calls = 0;
        std::ptrdiff_t leak_amount = 0;
        std::string    leak_name;
        unsigned       invalid_calls = 0;
        std::string    invalid_name;
        unsigned       overflow_calls = 0;
        struct Overflow
        {
            const void* mem;
            std::size_t size;
            const void* ptr;
        } overflow[4] = {};
        unsigned       oom_calls = 0, badsize_calls = 0;
        unsigned       stale_calls = 0; // a handler that is not the currently installed one was called
        void           reset()
        {
            *this = Handlers();
        }
    };
    Handlers& handlers();
    void      install_handlers();

    struct Marker
    {
        int                      idx;      // index in the adapter's marker vector
        std::size_t              cap;      // capacity_left() when taken
        std::uint64_t            water;    // shadow id watermark: allocations with id > water are younger
        std::uint64_t            attempts; // allocation attempts on this object when taken
        std::uint64_t            successes;
        struct TapeReq
        {
            Req         r;
            std::size_t off; // SimHeap offset of the result
        };
        std::vector<TapeReq>     tape;
        bool                     tape_valid = true;
        std::vector<std::size_t> outer_len; // lengths of the outer markers' tapes when this one was taken
        // temporary stack scopes (K_TEMP): blocks in use when the scope was opened; shrink_to_fit() requested on it
        std::size_t grew_next = 0; // next_capacity() right before the first growth after this marker (0: none yet)
        std::size_t block = 0;         // SimHeap block of the stack's top when the marker was taken
        bool        block_known = false;
        bool        grew_dead = false; // a cache purge or a failed request since: not to be learned or judged
        std::size_t t_size  = 0;
        bool        t_flag  = false;
        std::size_t t_block = 0;
    };

    struct ObjSt
    {
        Obj*   o    = nullptr;
        bool   husk = false;
        void*  slot = nullptr;
        ObjCfg cfg;
        // model
        std::vector<Marker>      markers;
        std::uint64_t            attempts = 0, successes = 0;
        long long                iter = 0;
        std::vector<std::size_t> full_cap;
        long long                leak_net = 0;
        bool                     cap_mark_valid = false;
        std::vector<std::size_t> cap_mark;
        bool                     failure_seen = false;
        bool                     shrunk       = false;
        std::uintptr_t           last_end     = 0; // end (incl. back fence) of the latest stack-like allocation
        bool                     last_end_valid = false;
        std::size_t              last_block     = 0;
        std::size_t              cur_block = 0; // K_STACK: SimHeap block the top of the stack lies in
        bool                     cur_block_known = false;
        // K_TEMP: blocks the stack is using, blocks it caches, block of the current top; valid while t_model
        std::size_t t_size = 1, t_cached = 0, t_block = 0;
        bool        t_model = false, t_base_flag = false;
        void                     clear_model()
        {
            markers.clear();
            attempts = successes = 0;
            iter     = 0;
            full_cap.clear();
            leak_net       = 0;
            cap_mark_valid = false;
            cap_mark.clear();
            failure_seen = false;
        }
    };

    sim::RunResult run_exit_leak(const sim::Plan& plan);

    class Interp
    {
    public:
        sim::RunResult run(const sim::Plan& p);

    private:
        void exec(const sim::Op& op);
        // ops
        void op_make(int which);
        void op_alloc(const sim::Op& op, bool array);
        void op_free(long long victim);
        void op_free_all(int which, int order);
        void op_top(int which);
        void op_unwind(int which, long long m, bool replay);
        void op_next(int which);
        void op_shrink(int which, long long depth = 0);
        void op_move(int which, int where);
        void op_move_assign(int dir);
        void op_swap();
        void op_destroy(int which);
        void op_destroy_husk(long long k);
        void op_over(const sim::Op& op);
        void op_newhandler(const sim::Op& op);
        void op_mark_cap(int which);
        void op_check_cap(int which);
        void op_cycle(const sim::Op& op);
        void op_mbs(const sim::Op& op);
        void op_reserve(const sim::Op& op);
        void op_foreign(const sim::Op& op);
        void op_corrupt(const sim::Op& op);
        void op_foreign_adjacent(const sim::Op& op);
        void op_drain(const sim::Op& op);
        void op_fill(const sim::Op& op);
        void op_bad(const sim::Op& op);
        void op_bad_block(const sim::Op& op);
        void judge_death(int outcome, const char* what);
        static std::size_t arena_header_bytes();
        void op_corsweep(const sim::Op& op);
        std::size_t fence_of(ObjSt& S);

        // helpers
        ObjSt*   live_obj(long long which);
        Req      sanitize(ObjSt& S, int fam, bool array, long long count, long long size, long long al);
        bool     do_alloc(ObjSt& S, int idx, const Req& r, int fail, sim::Alloc** out, bool in_replay);
        void     do_free(sim::Alloc a);
        void     after_sut_call(const char* what);
        void     destroy_obj(ObjSt& S, bool is_husk);
        void*    new_slot(std::size_t size, int where);
        ObjCfg   cfg_for(int which);
        void     snapshot_caps(ObjSt& S, std::vector<std::size_t>& out);
        void     drop_allocs_of(int idx);
        void     retag(int from, int to);
        const char* cprop(const char* base);
        int      index_of(ObjSt& S)
        {
            return int(&S - objs_);
        }

        const sim::Plan* plan_ = nullptr;
        ObjSt            objs_[2];
        std::vector<ObjSt> husks_;
        sim::Shadow      shadow_;
        sim::RunHash     hash_;
        int              step_ = 0;
        bool             nontrivial_growth_ = false, nontrivial_release_ = false;
        std::size_t      fill_checks_ = 0;
        unsigned         moves_done_ = 0, last_calls_ = 0;
        int              next_owner_ = 0;
        bool             in_destroy_ = false, expect_overflow_ = false, in_over_ = false;
    };
} // namespace hs
