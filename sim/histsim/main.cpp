#include "gen.hpp"
#include "interp.hpp"

namespace
{
    class HistSim : public sim::Engine
    {
    public:
        const char* name() const override
        {
            return "histsim";
        }
        sim::Plan generate(const std::string& profile, std::uint64_t seed) override
        {
            return hs::generate(profile, seed);
        }
        sim::RunResult execute(const sim::Plan& p) override
        {
            if (p.get("mode") == "exitleak")
                return hs::run_exit_leak(p);
            hs::Interp in;
            return in.run(p);
        }
    };
} // namespace

int main(int argc, char** argv)
{
    hs::install_handlers();
    HistSim e;
    return sim::engine_main(argc, argv, e);
}
