#include "gen.hpp"
#include "interp.hpp"

namespace
{
    class HistSim : public sim::Engine
    {
    public:
        const char* name() const override
        {
            return "histsim";
        }
        sim::Plan generate(const std::string& profile, std::uint64_t seed) override
        {
            return hs::generate(profile, seed);
        }
        sim::RunResult execute(const sim::Plan& p) override
        {
            hs::Interp in;
            return in.run(p);
        }
    };
} // namespace

int main(int argc, char** argv)
{
    hs::install_handlers();
    HistSim e;
    return sim::engine_main(argc, argv, e);
}
