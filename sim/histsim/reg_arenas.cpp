#include "adapters.hpp"
namespace hs
{
    static Registrar r1  = reg_arena<true, SrcG<2, 1>>("arena.c.G2");
    static Registrar r2  = reg_arena<false, SrcG<2, 1>>("arena.u.G2");
    static Registrar r3  = reg_arena<true, SrcFX>("arena.c.FX");
    static Registrar r4  = reg_arena<false, SrcFX>("arena.u.FX");
    static Registrar r5  = reg_arena<true, SrcST>("arena.c.ST");
    static Registrar r6  = reg_arena<false, SrcST>("arena.u.ST");
    static Registrar r7  = reg_arena<true, SrcVB>("arena.c.VB");
    static Registrar r8  = reg_arena<false, SrcVB>("arena.u.VB");
    static Registrar r9  = reg_arena<true, SrcSB>("arena.c.SB");
    static Registrar r10 = reg_arena<false, SrcSB>("arena.u.SB");
    static Registrar r11 = reg_arena<true, SrcDEF>("arena.c.DEF");
} // namespace hs
