#include "adapters.hpp"
namespace hs
{
    using G2 = SrcG<2, 1>;
    static Registrar r1 = reg_coll<fm::node_pool, fm::identity_buckets, G2>("coll.node.id.G2");
    static Registrar r2 = reg_coll<fm::array_pool, fm::identity_buckets, G2>("coll.array.id.G2");
    static Registrar r3 = reg_coll<fm::small_node_pool, fm::identity_buckets, G2>("coll.small.id.G2");
    static Registrar r4 = reg_coll<fm::node_pool, fm::log2_buckets, G2>("coll.node.log2.G2");
    static Registrar r5 = reg_coll<fm::array_pool, fm::log2_buckets, G2>("coll.array.log2.G2");
    static Registrar r6 = reg_coll<fm::small_node_pool, fm::log2_buckets, G2>("coll.small.log2.G2");
    static Registrar r7 = reg_coll<fm::node_pool, fm::identity_buckets, SrcFX>("coll.node.id.FX");
    static Registrar r8 = reg_coll<fm::array_pool, fm::identity_buckets, SrcFX>("coll.array.id.FX");
    static Registrar r9 = reg_coll<fm::small_node_pool, fm::identity_buckets, SrcFX>("coll.small.id.FX");
    static Registrar r10 = reg_coll<fm::node_pool, fm::log2_buckets, SrcFX>("coll.node.log2.FX");
    static Registrar r11 = reg_coll<fm::array_pool, fm::log2_buckets, SrcFX>("coll.array.log2.FX");
    static Registrar r12 = reg_coll<fm::small_node_pool, fm::log2_buckets, SrcFX>("coll.small.log2.FX");
} // namespace hs
