#include "adapters.hpp"
namespace hs
{
    static Registrar r1 = reg_coll<fm::node_pool, fm::identity_buckets, SrcST>("coll.node.id.ST");
    static Registrar r2 = reg_coll<fm::array_pool, fm::identity_buckets, SrcST>("coll.array.id.ST");
    static Registrar r3 = reg_coll<fm::small_node_pool, fm::identity_buckets, SrcST>("coll.small.id.ST");
    static Registrar r4 = reg_coll<fm::node_pool, fm::log2_buckets, SrcST>("coll.node.log2.ST");
    static Registrar r5 = reg_coll<fm::array_pool, fm::log2_buckets, SrcST>("coll.array.log2.ST");
    static Registrar r6 = reg_coll<fm::small_node_pool, fm::log2_buckets, SrcST>("coll.small.log2.ST");
    static Registrar r7 = reg_coll<fm::node_pool, fm::identity_buckets, SrcDEF>("coll.node.id.DEF");
    static Registrar r8 = reg_coll<fm::array_pool, fm::identity_buckets, SrcDEF>("coll.array.id.DEF");
    static Registrar r9 = reg_coll<fm::small_node_pool, fm::identity_buckets, SrcDEF>("coll.small.id.DEF");
    static Registrar r10 = reg_coll<fm::node_pool, fm::log2_buckets, SrcDEF>("coll.node.log2.DEF");
    static Registrar r11 = reg_coll<fm::array_pool, fm::log2_buckets, SrcDEF>("coll.array.log2.DEF");
    static Registrar r12 = reg_coll<fm::small_node_pool, fm::log2_buckets, SrcDEF>("coll.small.log2.DEF");
} // namespace hs
