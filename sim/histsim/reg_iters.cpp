#include "adapters.hpp"
namespace hs
{
    static Registrar r1  = reg_iter<1, SrcRAW>("iter1.RAW");
    static Registrar r2  = reg_iter<2, SrcRAW>("iter2.RAW");
    static Registrar r3  = reg_iter<3, SrcRAW>("iter3.RAW");
    static Registrar r4  = reg_iter<4, SrcRAW>("iter4.RAW");
    static Registrar r5  = reg_iter<5, SrcRAW>("iter5.RAW");
    static Registrar r6  = reg_iter<2, SrcST>("iter2.ST");
    static Registrar r7  = reg_iter<3, SrcST>("iter3.ST");
    static Registrar r8  = reg_iter<2, SrcDEF>("iter2.DEF");
    static Registrar r9  = reg_iter<3, SrcG<2, 1>>("iter3.G2");
    static Registrar r10 = reg_iter<4, SrcVB>("iter4.VB");
} // namespace hs
