// static_allocator and the four low-level allocators (libc wrapped into SimHeap).
#include "adapters.hpp"

#include <foonathan/memory/heap_allocator.hpp>
#include <foonathan/memory/malloc_allocator.hpp>
#include <foonathan/memory/new_allocator.hpp>
#include <foonathan/memory/temporary_allocator.hpp>

#include <memory>

namespace hs
{
    // Generic RawAllocator adapter: member = the allocator's own member functions, traits = allocator_traits.
    template <class A, bool Composable = false>
    class RawObj : public ObjBase<A, RawObj<A, Composable>>
    {
        using traits = fm::allocator_traits<A>;
        using ObjBase<A, RawObj<A, Composable>>::o_;

    public:
        using ObjBase<A, RawObj<A, Composable>>::ObjBase;

        void* allocate(const Req& r, std::size_t& usable) override
        {
            usable = r.array ? r.count * r.size : r.size;
            if (r.fam == MEMBER && !r.array)
                return o_->allocate_node(r.size, r.align);
            return r.array ? traits::allocate_array(*o_, r.count, r.size, r.align) :
                             traits::allocate_node(*o_, r.size, r.align);
        }
        bool deallocate(const Req& r, void* p) override
        {
            if (r.fam == MEMBER && !r.array)
                o_->deallocate_node(p, r.size, r.align);
            else if (r.array)
                traits::deallocate_array(*o_, p, r.count, r.size, r.align);
            else
                traits::deallocate_node(*o_, p, r.size, r.align);
            return true;
        }
        std::size_t max_node() override
        {
            return traits::max_node_size(*o_);
        }
        std::size_t max_array() override
        {
            return traits::max_array_size(*o_);
        }
        std::size_t max_align() override
        {
            return traits::max_alignment(*o_);
        }
    };

    static Registrar reg_static()
    {
        using T = fm::static_allocator;
        Caps c;
        c.kind      = K_STATIC;
        c.array     = true;
        c.comp      = false;
        c.faultable = false;
        c.swappable = true;
        return Registrar("static", sizeof(T), c,
                         [c](const ObjCfg& cfg, void* slot) -> Obj*
                         {
                             T* t = nullptr;
                             with_storage(cfg.storage, cfg.storage_size,
                                          [&](auto& st) { t = ::new (slot) T(st); });
                             auto o    = new RawObj<T>(t);
                             o->caps   = c;
                             o->owner  = sim::OWNER_HARNESS;
                             o->header = 0;
                             o->name   = "static";
                             return o;
                         });
    }
    static Registrar r0 = reg_static();

    template <class A>
    static Registrar reg_ll(const std::string& name, int owner)
    {
        Caps c;
        c.kind        = K_LOWLEVEL;
        c.array       = true;
        c.comp        = false;
        c.frees       = true;
        c.grows       = true;
        c.swappable   = true;
        c.bounded_max = true;
        return Registrar(name, sizeof(A), c,
                         [c, name, owner](const ObjCfg&, void* slot) -> Obj*
                         {
                             A*   t    = ::new (slot) A();
                             auto o    = new RawObj<A>(t);
                             o->caps   = c;
                             o->owner  = owner;
                             o->header = 0;
                             o->name   = name;
                             return o;
                         });
    }
    // temporary_allocator on an explicitly created temporary_stack (single thread; the multi-threaded life of
    // the per-thread stacks is schedsim's business). Markers are scopes: "top" opens a nested
    // temporary_allocator, "unwind(m)" ends every scope above m and m itself and opens a fresh one in its place.
    // The interpreter opens scope 0 right after creation, so the outermost temporary_allocator of the stack ends
    // and restarts with unwind(0) like any other.
    class TempObj : public Obj
    {
    public:
        explicit TempObj(fm::temporary_stack* s) : stack_(s) {}
        ~TempObj() override
        {
            for (auto& s : scopes_)
                s.release(); // an abandoned object is never destroyed (destroy() empties the vector otherwise)
        }
        using traits = fm::allocator_traits<fm::temporary_allocator>;
        void* allocate(const Req& r, std::size_t& usable) override
        {
            if (scopes_.empty())
                scopes_.emplace_back(new fm::temporary_allocator(*stack_));
            auto& a = *scopes_.back();
            usable  = r.array ? r.count * r.size : r.size;
            if (r.fam == MEMBER)
                return a.allocate(usable, r.align);
            return r.array ? traits::allocate_array(a, r.count, r.size, r.align) :
                             traits::allocate_node(a, r.size, r.align);
        }
        bool deallocate(const Req&, void*) override
        {
            return true; // memory ends with its scope
        }
        std::size_t max_node() override
        {
            return scopes_.empty() ? 0 : traits::max_node_size(*scopes_.back());
        }
        std::size_t max_array() override
        {
            return scopes_.empty() ? 0 : traits::max_array_size(*scopes_.back());
        }
        std::size_t max_align() override
        {
            return scopes_.empty() ? 0 : traits::max_alignment(*scopes_.back());
        }
        std::size_t reading(int which, std::size_t) override
        {
            return which == 1 ? stack_->next_capacity() : 0;
        }
        int push_marker() override
        {
            scopes_.emplace_back(new fm::temporary_allocator(*stack_));
            return int(scopes_.size()) - 1; // marker i <-> scope i
        }
        void unwind(int i) override
        {
            while (int(scopes_.size()) > i)
                scopes_.pop_back(); // innermost first, as the language would
            scopes_.emplace_back(new fm::temporary_allocator(*stack_));
        }
        void truncate_markers(int) override {}
        void shrink_to_fit() override
        {
            if (!scopes_.empty())
                scopes_.back()->shrink_to_fit(); // takes effect when that scope ends
        }
        void shrink_scope(int k) override
        {
            if (k >= 0 && k < int(scopes_.size()))
                scopes_[std::size_t(k)]->shrink_to_fit(); // legal on an allocator that is not the active one
        }
        std::size_t object_size() const override
        {
            return sizeof(fm::temporary_stack);
        }
        Obj* move_construct(void*) override
        {
            return nullptr;
        }
        void move_assign_from(Obj&) override {}
        void swap_with(Obj&) override {}
        void destroy() override
        {
            while (!scopes_.empty())
                scopes_.pop_back();
            stack_->~temporary_stack();
        }
        const void* address() const override
        {
            return stack_;
        }

    private:
        fm::temporary_stack*                                  stack_;
        std::vector<std::unique_ptr<fm::temporary_allocator>> scopes_;
    };
    static Registrar reg_temp()
    {
        Caps c;
        c.kind       = K_TEMP;
        c.array      = true;
        c.markers    = true;
        c.shrink     = true;
        c.comp       = false;
        c.grows      = true;
        c.unbounded  = true;
        c.movable    = false;
        c.assignable = false;
        c.swappable  = false;
        return Registrar("temp", sizeof(fm::temporary_stack), c,
                         [c](const ObjCfg& cfg, void* slot) -> Obj*
                         {
                             auto st   = ::new (slot) fm::temporary_stack(cfg.block_size);
                             auto o    = new TempObj(st);
                             o->caps   = c;
                             o->owner  = sim::OWNER_MALLOC;
                             o->header = arena_header;
                             o->name   = "temp";
                             return o;
                         });
    }
    static Registrar rt = reg_temp();

    static Registrar r1 = reg_ll<fm::heap_allocator>("ll.heap", sim::OWNER_MALLOC);
    static Registrar r2 = reg_ll<fm::malloc_allocator>("ll.malloc", sim::OWNER_MALLOC);
    static Registrar r3 = reg_ll<fm::new_allocator>("ll.new", sim::OWNER_NEW);
    static Registrar r4 = reg_ll<fm::virtual_memory_allocator>("ll.virtual", sim::OWNER_MMAP);
} // namespace hs
