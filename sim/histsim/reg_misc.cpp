// static_allocator and the four low-level allocators (libc wrapped into SimHeap).
#include "adapters.hpp"

#include <foonathan/memory/heap_allocator.hpp>
#include <foonathan/memory/malloc_allocator.hpp>
#include <foonathan/memory/new_allocator.hpp>

namespace hs
{
    // Generic RawAllocator adapter: member = the allocator's own member functions, traits = allocator_traits.
    template <class A, bool Composable = false>
    class RawObj : public ObjBase<A, RawObj<A, Composable>>
    {
        using traits = fm::allocator_traits<A>;
        using ObjBase<A, RawObj<A, Composable>>::o_;

    public:
        using ObjBase<A, RawObj<A, Composable>>::ObjBase;

        void* allocate(const Req& r, std::size_t& usable) override
        {
            usable = r.array ? r.count * r.size : r.size;
            if (r.fam == MEMBER && !r.array)
                return o_->allocate_node(r.size, r.align);
            return r.array ? traits::allocate_array(*o_, r.count, r.size, r.align) :
                             traits::allocate_node(*o_, r.size, r.align);
        }
        bool deallocate(const Req& r, void* p) override
        {
            if (r.fam == MEMBER && !r.array)
                o_->deallocate_node(p, r.size, r.align);
            else if (r.array)
                traits::deallocate_array(*o_, p, r.count, r.size, r.align);
            else
                traits::deallocate_node(*o_, p, r.size, r.align);
            return true;
        }
        std::size_t max_node() override
        {
            return traits::max_node_size(*o_);
        }
        std::size_t max_array() override
        {
            return traits::max_array_size(*o_);
        }
        std::size_t max_align() override
        {
            return traits::max_alignment(*o_);
        }
    };

    static Registrar reg_static()
    {
        using T = fm::static_allocator;
        Caps c;
        c.kind      = K_STATIC;
        c.array     = true;
        c.comp      = false;
        c.faultable = false;
        c.swappable = true;
        return Registrar("static", sizeof(T), c,
                         [c](const ObjCfg& cfg, void* slot) -> Obj*
                         {
                             T* t = nullptr;
                             with_storage(cfg.storage, cfg.storage_size,
                                          [&](auto& st) { t = ::new (slot) T(st); });
                             auto o    = new RawObj<T>(t);
                             o->caps   = c;
                             o->owner  = sim::OWNER_HARNESS;
                             o->header = 0;
                             o->name   = "static";
                             return o;
                         });
    }
    static Registrar r0 = reg_static();

    template <class A>
    static Registrar reg_ll(const std::string& name, int owner)
    {
        Caps c;
        c.kind        = K_LOWLEVEL;
        c.array       = true;
        c.comp        = false;
        c.frees       = true;
        c.grows       = true;
        c.swappable   = true;
        c.bounded_max = true;
        return Registrar(name, sizeof(A), c,
                         [c, name, owner](const ObjCfg&, void* slot) -> Obj*
                         {
                             A*   t    = ::new (slot) A();
                             auto o    = new RawObj<A>(t);
                             o->caps   = c;
                             o->owner  = owner;
                             o->header = 0;
                             o->name   = name;
                             return o;
                         });
    }
    static Registrar r1 = reg_ll<fm::heap_allocator>("ll.heap", sim::OWNER_MALLOC);
    static Registrar r2 = reg_ll<fm::malloc_allocator>("ll.malloc", sim::OWNER_MALLOC);
    static Registrar r3 = reg_ll<fm::new_allocator>("ll.new", sim::OWNER_NEW);
    static Registrar r4 = reg_ll<fm::virtual_memory_allocator>("ll.virtual", sim::OWNER_MMAP);
} // namespace hs
