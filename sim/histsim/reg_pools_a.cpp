#include "adapters.hpp"
namespace hs
{
    using G2  = SrcG<2, 1>;
    using G32 = SrcG<3, 2>;
    static Registrar r1  = reg_pool<fm::node_pool, G2>("pool.node.G2");
    static Registrar r2  = reg_pool<fm::array_pool, G2>("pool.array.G2");
    static Registrar r3  = reg_pool<fm::small_node_pool, G2>("pool.small.G2");
    static Registrar r4  = reg_pool<fm::node_pool, G32>("pool.node.G32");
    static Registrar r5  = reg_pool<fm::array_pool, G32>("pool.array.G32");
    static Registrar r6  = reg_pool<fm::small_node_pool, G32>("pool.small.G32");
    static Registrar r7  = reg_pool<fm::node_pool, SrcFX>("pool.node.FX");
    static Registrar r8  = reg_pool<fm::array_pool, SrcFX>("pool.array.FX");
    static Registrar r9  = reg_pool<fm::small_node_pool, SrcFX>("pool.small.FX");
} // namespace hs
