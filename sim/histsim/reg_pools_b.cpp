#include "adapters.hpp"
namespace hs
{
    static Registrar r1  = reg_pool<fm::node_pool, SrcST>("pool.node.ST");
    static Registrar r2  = reg_pool<fm::array_pool, SrcST>("pool.array.ST");
    static Registrar r3  = reg_pool<fm::small_node_pool, SrcST>("pool.small.ST");
    static Registrar r4  = reg_pool<fm::node_pool, SrcVB>("pool.node.VB");
    static Registrar r5  = reg_pool<fm::array_pool, SrcVB>("pool.array.VB");
    static Registrar r6  = reg_pool<fm::small_node_pool, SrcVB>("pool.small.VB");
    static Registrar r7  = reg_pool<fm::node_pool, SrcSB>("pool.node.SB");
    static Registrar r8  = reg_pool<fm::array_pool, SrcSB>("pool.array.SB");
    static Registrar r9  = reg_pool<fm::small_node_pool, SrcSB>("pool.small.SB");
    static Registrar r10 = reg_pool<fm::node_pool, SrcDEF>("pool.node.DEF");
    static Registrar r11 = reg_pool<fm::array_pool, SrcDEF>("pool.array.DEF");
    static Registrar r12 = reg_pool<fm::small_node_pool, SrcDEF>("pool.small.DEF");
} // namespace hs
