#include "adapters.hpp"
namespace hs
{
    static Registrar r1 = reg_stack<SrcG<2, 1>>("stack.G2");
    static Registrar r2 = reg_stack<SrcG<3, 2>>("stack.G32");
    static Registrar r3 = reg_stack<SrcG<1, 1>>("stack.G1");
    static Registrar r4 = reg_stack<SrcFX>("stack.FX");
    static Registrar r5 = reg_stack<SrcST>("stack.ST");
    static Registrar r6 = reg_stack<SrcVB>("stack.VB");
    static Registrar r7 = reg_stack<SrcSB>("stack.SB");
    static Registrar r8 = reg_stack<SrcDEF>("stack.DEF");
    static Registrar r9 = reg_stack<SrcRAW>("stack.RAW");
} // namespace hs
