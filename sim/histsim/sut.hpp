// histsim: the uniform interface the interpreter drives every system-under-test through.
// Everything behind it is real library code; the adapters only translate abstract requests into the
// member / allocator_traits / composable_allocator_traits calls of the concrete type.
#pragma once
#include "../kernel/plan.hpp"
#include "../kernel/simheap.hpp"

#include <cstddef>
#include <functional>
#include <map>
#include <string>
#include <vector>

namespace hs
{
    enum Fam
    {
        MEMBER = 0,
        TRAITS = 1,
        COMP   = 2
    };

    enum Kind
    {
        K_POOL,
        K_COLL,
        K_STACK,
        K_ITER,
        K_STATIC,
        K_LOWLEVEL,
        K_ARENA,
        K_TEMP,
        K_LIST
    };

    struct Req
    {
        int         fam;
        bool        array;
        std::size_t count, size, align;
    };

    struct Caps
    {
        Kind kind;
        bool array         = false; // supports array requests (in every family it has)
        bool frees         = false; // individual deallocation really returns memory (pools)
        bool markers       = false;
        bool iter          = false;
        bool shrink        = false;
        bool member        = true;
        bool traits        = true;
        bool comp          = true;
        bool grows         = false; // source can provide more than one block
        bool unbounded     = false; // ... and never runs dry by itself (only the upstream can say no)
        bool faultable     = true;  // upstream calls go through SimHeap::request (faults can be injected)
        bool leak_tracked  = false; // allocator_traits level leak accounting on destruction
        bool movable       = true;
        bool assignable    = true;
        bool swappable     = false;
        bool bounded_max   = true;  // "a request above max_* never succeeds" applies
        bool ordered_nodes = false; // node list is the ordered list in this build
        std::size_t n_iter = 0;
    };

    struct ObjCfg
    {
        std::size_t node_size = 16, max_node = 64, block_size = 1024;
        int         owner     = sim::OWNER_FIRST;
        void*       storage   = nullptr;
        std::size_t storage_size = 0;
        std::size_t no_blocks = 4;
        unsigned    vary      = 0;
        std::size_t mbs_n     = 0; // != 0: build with block_size = min_block_size(node_size or bytes, mbs_n)
        bool        raii      = false; // stacks: markers are memory_stack_raii_unwind objects
    };

    // A request failed in a way the interface allows: exception (what kind) or null from a try_ function.
    struct Failure
    {
        bool        threw        = false;
        bool        is_bad_alloc = false;
        bool        is_sim       = false; // the simulator's own injected exception passed through
        bool        is_oom       = false; // foonathan::memory::out_of_memory family
        bool        is_bad_size  = false; // foonathan::memory::bad_allocation_size family
        std::string type;
    };

    class Obj
    {
    public:
        virtual ~Obj() {}
        Caps        caps;
        int         owner  = 0;  // SimHeap owner of the source (0: check containment against any block)
        std::size_t header = 0;  // arena header bytes at the start of each upstream block
        std::string name;

        // Returns pointer or nullptr (only legal for COMP). Exceptions propagate to the interpreter.
        virtual void* allocate(const Req&, std::size_t& usable) = 0;
        // COMP: result of try_deallocate_*; others: true
        virtual bool deallocate(const Req&, void* p) = 0;

        virtual std::size_t max_node()  = 0;
        virtual std::size_t max_array() = 0;
        virtual std::size_t max_align() = 0;

        // capacity readings. which: 0 capacity_left, 1 next_capacity, 2 pool_capacity_left(arg) (collections),
        // 3 capacity_left(arg) (iteration region arg), 4 node_size (pools) / stride for request size arg
        virtual std::size_t reading(int which, std::size_t arg = 0)
        {
            (void)which;
            (void)arg;
            return 0;
        }

        // stack markers (stored inside the adapter, addressed by index)
        virtual int push_marker()
        {
            return -1;
        }
        virtual void unwind(int)
        {
        }
        virtual void truncate_markers(int keep) // forget markers with index >= keep
        {
            (void)keep;
        }
        // -1 a<b, 0 a==b, 1 a>b according to the library's operators; also checks their mutual consistency
        virtual int compare_markers(int, int)
        {
            return 0;
        }
        virtual bool top_equals(int)
        {
            return true;
        }
        virtual void swap_markers(Obj&)
        {
        }
        virtual void next_iteration()
        {
        }
        // (temporary stacks: on the temporary_allocator of scope k, which need not be the active one)
        virtual void shrink_scope(int)
        {
            shrink_to_fit();
        }
        virtual void shrink_to_fit()
        {
        }
        virtual void reserve(std::size_t node_size, std::size_t capacity)
        {
            (void)node_size;
            (void)capacity;
        }
        virtual bool owns(const void* p) // composable ownership query where the type has a public one
        {
            (void)p;
            return false;
        }

        virtual std::size_t object_size() const                 = 0;
        virtual Obj*        move_construct(void* slot)          = 0; // returns adapter for the new object
        virtual void        move_assign_from(Obj& other)        = 0;
        virtual void        swap_with(Obj& other)               = 0;
        virtual void        destroy()                           = 0; // runs the destructor
        virtual const void* address() const                     = 0;
    };

    using Factory = std::function<Obj*(const ObjCfg&, void* slot)>;
    struct FactoryInfo
    {
        Factory     make;
        std::size_t object_size;
        Caps        caps;
    };
    std::map<std::string, FactoryInfo>& registry();
    struct Registrar
    {
        Registrar(const std::string& name, std::size_t object_size, Caps caps, Factory f)
        {
            registry()[name] = FactoryInfo{f, object_size, caps};
        }
    };

    // classify the in-flight exception (call inside catch(...))
    Failure classify_current_exception();
} // namespace hs
