#include "engine.hpp"

#include <csignal>
#include <cstdio>
#include <cstdlib>
#include <cstring>
#include <exception>
#include <typeinfo>
#include <unistd.h>

// Classify sanitizer deaths: exit code 77, no leak checking (LSan would flood), keep going is never wanted.
extern "C" __attribute__((used)) const char* __asan_default_options()
{
    return "exitcode=77:detect_leaks=0:abort_on_error=0:allocator_may_return_null=1:handle_abort=0:"
           "detect_stack_use_after_return=0:poison_heap=1";
}
extern "C" __attribute__((used)) const char* __ubsan_default_options()
{
    return "halt_on_error=1:exitcode=76:print_stacktrace=0";
}

// default for the guarded scheduling-point hook of the library (schedsim provides the real one)
extern "C" __attribute__((weak)) void foonathan_memory_verif_yield(const char*) noexcept {}

#ifdef VERIF_COVERAGE
extern "C" void __gcov_dump(void);
#define VERIF_COV_DUMP() __gcov_dump()
#else
#define VERIF_COV_DUMP() ((void)0)
#endif

namespace sim
{
    namespace
    {
        void on_signal(int sig)
        {
            const char* m = sig == SIGABRT ? "X signal=SIGABRT\n" :
                            sig == SIGSEGV ? "X signal=SIGSEGV\n" :
                            sig == SIGBUS  ? "X signal=SIGBUS\n" :
                            sig == SIGFPE  ? "X signal=SIGFPE\n" :
                                             "X signal=other\n";
            ssize_t r = write(1, m, std::strlen(m));
            (void)r;
            _exit(sig == SIGABRT ? 78 : 75);
        }

        void on_terminate()
        {
            const char* what = "unknown";
            if (auto ep = std::current_exception())
            {
                try
                {
                    std::rethrow_exception(ep);
                }
                catch (const std::exception& e)
                {
                    what = typeid(e).name();
                }
                catch (const Violation& v)
                {
                    what = "sim::Violation escaped";
                }
                catch (...)
                {
                }
            }
            std::printf("X terminate=%s\n", what);
            std::fflush(stdout);
            _exit(79);
        }

        const char* arg(int argc, char** argv, const char* key, const char* def)
        {
            for (int i = 2; i + 1 < argc; ++i)
                if (!std::strcmp(argv[i], key))
                    return argv[i + 1];
            return def;
        }

        void print_result(std::size_t i, std::uint64_t seed, const RunResult& r)
        {
            if (r.violated)
                std::printf("V %zu %llu %s %s | step=%d %s\n", i, (unsigned long long)seed,
                            r.v.prop.c_str(), r.v.cls.c_str(), r.v.step, r.v.facts.c_str());
            else
                std::printf("R %zu %llu %016llx %d %zu%s%s\n", i, (unsigned long long)seed,
                            (unsigned long long)r.hash, r.nontrivial ? 1 : 0, r.ops,
                            r.skip.empty() ? "" : " skip=", r.skip.c_str());
            std::fflush(stdout);
        }
    } // namespace

    int engine_main(int argc, char** argv, Engine& e)
    {
        std::set_terminate(on_terminate);
        std::signal(SIGABRT, on_signal);
#if !defined(__SANITIZE_ADDRESS__)
        std::signal(SIGSEGV, on_signal);
        std::signal(SIGBUS, on_signal);
#endif
        std::signal(SIGFPE, on_signal);

        if (argc < 2)
        {
            std::fprintf(stderr, "usage: %s gen|run|exec ...\n", argv[0]);
            return 2;
        }
        std::string mode    = argv[1];
        std::string profile = arg(argc, argv, "--profile", "C01");

        if (mode == "gen")
        {
            auto seed = std::strtoull(arg(argc, argv, "--seed", "1"), nullptr, 10);
            auto p    = e.generate(profile, seed);
            std::fputs(p.str().c_str(), stdout);
            return 0;
        }
        if (mode == "exec")
        {
            Plan        p;
            std::string err;
            if (!Plan::load(arg(argc, argv, "--plan", ""), p, err))
            {
                std::fprintf(stderr, "HARNESS-ERROR %s\n", err.c_str());
                return 2;
            }
            std::printf("B 0 0\n");
            std::fflush(stdout);
            auto r = e.execute(p);
            print_result(0, 0, r);
            stats().print(stdout);
            std::printf("END\n");
            std::fflush(stdout);
            VERIF_COV_DUMP();
            _exit(r.violated ? 1 : 0);
        }
        if (mode == "run")
        {
            auto        base    = std::strtoull(arg(argc, argv, "--base", "1"), nullptr, 10);
            auto        from    = std::strtoull(arg(argc, argv, "--from", "0"), nullptr, 10);
            auto        count   = std::strtoull(arg(argc, argv, "--count", "100"), nullptr, 10);
            auto        samples = std::strtoull(arg(argc, argv, "--samples", "0"), nullptr, 10);
            std::size_t bad     = 0;
            for (auto i = from; i < from + count; ++i)
            {
                auto seed = mix(base, i) >> 1; // 63 bit: fits every JSON reader
                std::printf("B %llu %llu\n", (unsigned long long)i, (unsigned long long)seed);
                std::fflush(stdout);
                auto p = e.generate(profile, seed);
                {
                    // the subject of this run, so that a failure (also a crash) can be attributed without re-running
                    auto subj = p.get("sut");
                    if (subj.empty())
                        subj = p.get("comp");
                    if (subj.empty())
                        subj = p.get("cont");
                    if (!subj.empty())
                    {
                        std::printf("U %s\n", subj.c_str());
                        std::fflush(stdout);
                    }
                }
                if (i - from < samples)
                {
                    auto               text = p.str();
                    std::size_t        pos  = 0;
                    while (pos < text.size())
                    {
                        auto nl = text.find('\n', pos);
                        std::printf("P %llu %s\n", (unsigned long long)i,
                                    text.substr(pos, nl - pos).c_str());
                        pos = nl + 1;
                    }
                }
                auto r = e.execute(p);
                print_result(i, seed, r);
                if (r.violated)
                    ++bad;
                if (r.fatal)
                {
                    // this process holds parked threads it can never resume: report and leave, the driver
                    // continues with the next index in a fresh process
                    stats().print(stdout);
                    std::fflush(stdout);
                    VERIF_COV_DUMP();
                    _exit(0);
                }
            }
            stats().print(stdout);
            std::printf("END\n");
            std::fflush(stdout);
            VERIF_COV_DUMP();
            _exit(bad ? 1 : 0); // static destruction of a process that abandoned objects proves nothing
        }
        std::fprintf(stderr, "unknown mode %s\n", mode.c_str());
        return 2;
    }
} // namespace sim
