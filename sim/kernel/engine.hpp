// Engine protocol shared by all simulators: generate a plan from a seed, execute a plan, report.
//   <engine> gen  --profile P --seed S
//   <engine> run  --profile P --base B --from I --count N [--samples K]
//   <engine> exec --plan FILE
// Output lines (stdout, flushed one by one so that a dying worker is attributable):
//   B <i> <seed>                        run begins
//   R <i> <seed> <hash> <nontrivial> <ops> [skip=<reason>]
//   V <i> <seed> <props> <class> | <facts>     oracle violation (run ends at the first one)
//   P <i> <plan line>                   sample plans (first K runs)
//   S <key> <count>                     reach counters (at the end)
//   END
#pragma once
#include "plan.hpp"
#include "report.hpp"
#include "rng.hpp"

#include <string>

namespace sim
{
    struct RunResult
    {
        bool          violated = false;
        Violation     v;
        std::uint64_t hash       = 0;
        bool          nontrivial = false;
        std::size_t   ops        = 0;
        bool          fatal = false; // the process cannot run further plans (parked threads): exit after reporting
        std::string   skip; // non-empty: the run was abandoned for a harness reason (never a verdict)
    };

    class Engine
    {
    public:
        virtual ~Engine() {}
        virtual const char* name() const                                          = 0;
        virtual Plan        generate(const std::string& profile, std::uint64_t s) = 0;
        virtual RunResult   execute(const Plan& p)                                = 0;
    };

    int engine_main(int argc, char** argv, Engine& e);
} // namespace sim
