// Plans: the explicit, replayable description of one simulated run.
// Text format (one item per line):
//   cfg <key>=<value>
//   op <kind> <int>* [!<k>]        "!k": the k-th upstream call made by this op fails (fault attached to the op)
//   task <n>                       (schedsim) following ops belong to task n
//   sched <int>*                   (schedsim) recorded scheduler picks
#pragma once
#include <cstdio>
#include <cstdlib>
#include <cstring>
#include <map>
#include <sstream>
#include <string>
#include <vector>

namespace sim
{
    struct Op
    {
        std::string            kind;
        std::vector<long long> a;
        int                    fail = 0; // 0: no fault; k: k-th upstream call of this op fails
        int                    task = 0;

        long long arg(std::size_t i, long long def = 0) const
        {
            return i < a.size() ? a[i] : def;
        }
        std::string str() const
        {
            std::string s = kind;
            for (auto v : a)
                s += " " + std::to_string(v);
            if (fail)
                s += " !" + std::to_string(fail);
            return s;
        }
    };

    struct Plan
    {
        std::map<std::string, std::string> cfg;
        std::vector<Op>                    ops;
        std::vector<int>                   sched;

        long long num(const std::string& k, long long def = 0) const
        {
            auto it = cfg.find(k);
            return it == cfg.end() ? def : std::atoll(it->second.c_str());
        }
        std::string get(const std::string& k, const std::string& def = "") const
        {
            auto it = cfg.find(k);
            return it == cfg.end() ? def : it->second;
        }
        void set(const std::string& k, long long v)
        {
            cfg[k] = std::to_string(v);
        }
        void set(const std::string& k, const std::string& v)
        {
            cfg[k] = v;
        }
        void add(const std::string& kind, std::initializer_list<long long> a, int fail = 0,
                 int task = 0)
        {
            Op o;
            o.kind = kind;
            o.a    = a;
            o.fail = fail;
            o.task = task;
            ops.push_back(o);
        }

        std::string str() const
        {
            std::string s;
            for (auto& kv : cfg)
                s += "cfg " + kv.first + "=" + kv.second + "\n";
            int task = 0;
            for (auto& o : ops)
            {
                if (o.task != task)
                {
                    task = o.task;
                    s += "task " + std::to_string(task) + "\n";
                }
                s += "op " + o.str() + "\n";
            }
            if (!sched.empty())
            {
                s += "sched";
                for (auto v : sched)
                    s += " " + std::to_string(v);
                s += "\n";
            }
            return s;
        }

        static bool parse(const std::string& text, Plan& p, std::string& err)
        {
            std::istringstream in(text);
            std::string        line;
            int                task = 0;
            while (std::getline(in, line))
            {
                if (line.empty() || line[0] == '#')
                    continue;
                std::istringstream ls(line);
                std::string        w;
                ls >> w;
                if (w == "cfg")
                {
                    std::string kv;
                    ls >> kv;
                    auto eq = kv.find('=');
                    if (eq == std::string::npos)
                    {
                        err = "bad cfg line: " + line;
                        return false;
                    }
                    p.cfg[kv.substr(0, eq)] = kv.substr(eq + 1);
                }
                else if (w == "task")
                {
                    ls >> task;
                }
                else if (w == "op")
                {
                    Op o;
                    o.task = task;
                    ls >> o.kind;
                    std::string t;
                    while (ls >> t)
                    {
                        if (t[0] == '!')
                            o.fail = std::atoi(t.c_str() + 1);
                        else
                            o.a.push_back(std::atoll(t.c_str()));
                    }
                    p.ops.push_back(o);
                }
                else if (w == "sched")
                {
                    int v;
                    while (ls >> v)
                        p.sched.push_back(v);
                }
                else
                {
                    err = "bad line: " + line;
                    return false;
                }
            }
            return true;
        }

        static bool load(const char* path, Plan& p, std::string& err)
        {
            FILE* f = std::fopen(path, "r");
            if (!f)
            {
                err = std::string("cannot open ") + path;
                return false;
            }
            std::string text;
            char        buf[4096];
            std::size_t n;
            while ((n = std::fread(buf, 1, sizeof buf, f)) > 0)
                text.append(buf, n);
            std::fclose(f);
            return parse(text, p, err);
        }
    };
} // namespace sim
