// Violation records, run hashes, reach counters.
#pragma once
#include <cstdarg>
#include <cstdint>
#include <cstdio>
#include <map>
#include <string>

namespace sim
{
    // Thrown by oracles in harness code (never from inside a library callback).
    struct Violation
    {
        std::string prop;  // property id the violated oracle belongs to
        std::string cls;   // violation class (stable identifier used for shrinking / known findings)
        std::string facts; // free text key=value facts
        int         step = -1;
    };

    [[noreturn]] inline void violate(const char* prop, const char* cls, const char* fmt, ...)
    {
        char    buf[1024];
        va_list ap;
        va_start(ap, fmt);
        std::vsnprintf(buf, sizeof buf, fmt, ap);
        va_end(ap);
        Violation v;
        v.prop  = prop;
        v.cls   = cls;
        v.facts = buf;
        throw v;
    }

    struct RunHash
    {
        std::uint64_t h = 1469598103934665603ull;
        void          add(std::uint64_t v)
        {
            for (int i = 0; i < 8; ++i)
            {
                h = (h ^ (v & 0xff)) * 1099511628211ull;
                v >>= 8;
            }
        }
    };

    // Reach counters: what actually happened, aggregated over all runs of a worker.
    struct Stats
    {
        std::map<std::string, std::uint64_t> c;
        void                                 hit(const std::string& k, std::uint64_t n = 1)
        {
            c[k] += n;
        }
        void print(FILE* f) const
        {
            for (auto& kv : c)
                std::fprintf(f, "S %s %llu\n", kv.first.c_str(), (unsigned long long)kv.second);
        }
    };

    inline Stats& stats()
    {
        static Stats s;
        return s;
    }
} // namespace sim
