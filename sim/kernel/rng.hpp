// Seeded PRNG for the simulator: everything random in a run derives from one 64-bit value.
#pragma once
#include <cstdint>
#include <cstddef>
#include <initializer_list>

namespace sim
{
    inline std::uint64_t mix64(std::uint64_t z)
    {
        z += 0x9e3779b97f4a7c15ull;
        z = (z ^ (z >> 30)) * 0xbf58476d1ce4e5b9ull;
        z = (z ^ (z >> 27)) * 0x94d049bb133111ebull;
        return z ^ (z >> 31);
    }

    inline std::uint64_t mix(std::uint64_t a, std::uint64_t b)
    {
        return mix64(mix64(a) ^ (b * 0xda942042e4dd58b5ull + 0x1234567ull));
    }

    inline std::uint64_t hash_str(const char* s)
    {
        std::uint64_t h = 1469598103934665603ull;
        for (; *s; ++s)
            h = (h ^ (unsigned char)*s) * 1099511628211ull;
        return h;
    }

    class Rng
    {
    public:
        explicit Rng(std::uint64_t seed) : s_(seed) {}

        std::uint64_t next()
        {
            s_ += 0x9e3779b97f4a7c15ull;
            std::uint64_t z = s_;
            z               = (z ^ (z >> 30)) * 0xbf58476d1ce4e5b9ull;
            z               = (z ^ (z >> 27)) * 0x94d049bb133111ebull;
            return z ^ (z >> 31);
        }
        // uniform in [0, n)
        std::uint64_t below(std::uint64_t n)
        {
            return n ? next() % n : 0;
        }
        // uniform in [lo, hi]
        std::uint64_t range(std::uint64_t lo, std::uint64_t hi)
        {
            return lo + below(hi - lo + 1);
        }
        bool chance(unsigned num, unsigned den)
        {
            return below(den) < num;
        }
        template <typename T>
        T pick(std::initializer_list<T> l)
        {
            return *(l.begin() + below(l.size()));
        }
        // index drawn by integer weights
        std::size_t weighted(const unsigned* w, std::size_t n)
        {
            std::uint64_t tot = 0;
            for (std::size_t i = 0; i < n; ++i)
                tot += w[i];
            if (!tot)
                return 0;
            auto r = below(tot);
            for (std::size_t i = 0; i < n; ++i)
            {
                if (r < w[i])
                    return i;
                r -= w[i];
            }
            return n - 1;
        }
        // boundary-biased size in [lo, hi]
        std::uint64_t size_biased(std::uint64_t lo, std::uint64_t hi)
        {
            if (hi <= lo)
                return lo;
            switch (below(6))
            {
            case 0:
                return lo;
            case 1:
                return hi;
            case 2:
            { // near a power of two
                std::uint64_t p = 1ull << below(64 - __builtin_clzll(hi));
                std::uint64_t v = p + below(3) - 1;
                return v < lo ? lo : v > hi ? hi : v;
            }
            case 3: // small
                return lo + below((hi - lo < 16 ? hi - lo : 16) + 1);
            default:
                return range(lo, hi);
            }
        }

    private:
        std::uint64_t s_;
    };
} // namespace sim
