// Shadow: the reference model of what a caller may rely on. Interval map of live allocations with
// per-allocation byte patterns; disjointness, containment, alignment and content-preservation oracles.
#pragma once
#include "report.hpp"
#include "rng.hpp"
#include "simheap.hpp"

#include <cstring>
#include <map>
#include <vector>

namespace sim
{
    struct Alloc
    {
        char*       p;
        std::size_t bytes;   // bytes the caller may use
        bool        array;
        std::size_t count, size, align;
        int         fam;     // interface family it came from (0 member, 1 traits, 2 composable)
        int         obj;     // owning SUT object (index in the interpreter)
        std::uint64_t key;   // pattern key
        long long   tag;     // engine specific (iteration of birth, marker depth, ...)
        long long   delta;   // engine specific (capacity delta observed at allocation)
        std::uint64_t id;
        char*       cor_pre  = nullptr; // lowest corrupted byte of the front fence (C17)
        char*       cor_post = nullptr; // lowest corrupted byte of the back fence (C17)
    };

    inline unsigned char pat_byte(std::uint64_t key, std::size_t i)
    {
        auto v = (unsigned char)((key >> ((i & 7) * 8)) ^ (i * 131u) ^ (i >> 8));
        // never a debug_magic value, so that "user data" is never mistaken for fill
        if (v == 0xAB || v == 0xFB || v == 0xCD || v == 0xDD || v == 0xED || v == 0xFD)
            v ^= 0x11;
        return v;
    }

    class Shadow
    {
    public:
        void reset()
        {
            live_.clear();
            order_.clear();
            next_id_ = 0;
        }

        std::size_t size() const
        {
            return order_.size();
        }
        std::uint64_t last_id() const
        {
            return next_id_;
        }
        Alloc& nth(std::size_t i) // i-th live allocation in allocation order
        {
            return live_.at(order_[i]);
        }
        const std::vector<char*>& order() const
        {
            return order_;
        }
        Alloc* find(char* p)
        {
            auto it = live_.find(p);
            return it == live_.end() ? nullptr : &it->second;
        }

        // Checks a fresh allocation and registers it. `block_owner_ok(owner)` is decided by the caller through
        // owner ids; header: bytes at the start of the containing upstream block that belong to the arena.
        Alloc& add(const char* prop_overlap, void* vp, std::size_t bytes, std::size_t align, int obj,
                   int owner, std::size_t header, bool check_containment)
        {
            auto p = static_cast<char*>(vp);
            if (!p)
                violate("C03", "null_return", "bytes=%zu", bytes);
            if (align && (reinterpret_cast<std::uintptr_t>(p) & (align - 1)))
                violate("C02", "misaligned", "align=%zu addr_mod=%zu", align,
                        (std::size_t)(reinterpret_cast<std::uintptr_t>(p) & (align - 1)));
            // disjoint from every live allocation
            auto it = live_.upper_bound(p);
            if (it != live_.end() && it->first < p + bytes)
                violate(prop_overlap, "overlap", "new=[+%zu,%zu) live=[+%zu,%zu) live_obj=%d new_obj=%d",
                        SimHeap::get().off(p), bytes, SimHeap::get().off(it->first), it->second.bytes,
                        it->second.obj, obj);
            if (it != live_.begin())
            {
                --it;
                if (it->first + it->second.bytes > p)
                    violate(prop_overlap, "overlap", "new=[+%zu,%zu) live=[+%zu,%zu) live_obj=%d new_obj=%d",
                            SimHeap::get().off(p), bytes, SimHeap::get().off(it->first),
                            it->second.bytes, it->second.obj, obj);
            }
            if (check_containment)
            {
                auto& h = SimHeap::get();
                auto  b = h.find(p);
                if (!b)
                    violate("C01", "outside_owned", "ptr not inside any live upstream block bytes=%zu",
                            bytes);
                if (h.off(p) + bytes > b->off + b->size)
                    violate("C01,C02", "outside_owned", "allocation runs past the end of its block by %zu",
                            h.off(p) + bytes - (b->off + b->size));
                if (owner && b->owner != owner)
                    violate("C01", "outside_owned", "inside a block of owner %d, allocator's source is %d",
                            b->owner, owner);
                if (h.off(p) < b->off + header)
                    violate("C01", "outside_owned", "inside the arena header of its block (+%zu < %zu)",
                            h.off(p) - b->off, header);
            }
            Alloc a{};
            a.p     = p;
            a.bytes = bytes;
            a.align = align;
            a.obj   = obj;
            a.id    = ++next_id_;
            a.key   = mix64(a.id * 0x2545F4914F6CDD1Dull + bytes);
            auto r  = live_.emplace(p, a);
            order_.push_back(p);
            return r.first->second;
        }

        void fill(const Alloc& a)
        {
            for (std::size_t i = 0; i < a.bytes; ++i)
                a.p[i] = (char)pat_byte(a.key, i);
        }

        // first damaged offset or npos
        std::size_t verify(const Alloc& a) const
        {
            for (std::size_t i = 0; i < a.bytes; ++i)
                if ((unsigned char)a.p[i] != pat_byte(a.key, i))
                    return i;
            return std::size_t(-1);
        }

        void check(const Alloc& a, const char* prop, const char* when) const
        {
            auto bad = verify(a);
            if (bad != std::size_t(-1))
                violate(prop, "pattern_damaged",
                        "%s: live allocation id=%llu bytes=%zu damaged at offset %zu (found 0x%02x)", when,
                        (unsigned long long)a.id, a.bytes, bad, (unsigned)(unsigned char)a.p[bad]);
        }

        void check_all(const char* prop, const char* when) const
        {
            for (auto& kv : live_)
                check(kv.second, prop, when);
        }

        // removes from the model (done BEFORE the SUT call that releases it)
        Alloc take(char* p)
        {
            auto  it = live_.find(p);
            Alloc a  = it->second;
            live_.erase(it);
            for (std::size_t i = 0; i < order_.size(); ++i)
                if (order_[i] == p)
                {
                    order_.erase(order_.begin() + (long)i);
                    break;
                }
            return a;
        }

        template <class Pred>
        void drop_if(Pred pred)
        {
            for (std::size_t i = 0; i < order_.size();)
            {
                auto it = live_.find(order_[i]);
                if (pred(it->second))
                {
                    live_.erase(it);
                    order_.erase(order_.begin() + (long)i);
                }
                else
                    ++i;
            }
        }

        template <class F>
        void for_each(F f)
        {
            for (auto p : order_)
                f(live_.at(p));
        }

    private:
        std::map<char*, Alloc> live_;
        std::vector<char*>     order_;
        std::uint64_t          next_id_ = 0;
    };
} // namespace sim
