// RawAllocator / BlockAllocator models over SimHeap. They are what the library sees as "upstream".
#pragma once
#include "simheap.hpp"

#include <cstdio>
#include <map>
#include <type_traits>

#include <foonathan/memory/memory_arena.hpp>

namespace sim
{
    // What kind of request each upstream allocation was (node / array, count, element size): the release has to come
    // through the matching function with the same shape, not just with the same address and number of bytes
    // (seeded change C05-w9-2: blocks taken with allocate_array and given back with deallocate_node).
    struct UpstreamKinds
    {
        struct K
        {
            bool        array;
            std::size_t count, size;
        };
        std::map<void*, K> m;
        static UpstreamKinds& get()
        {
            static UpstreamKinds k;
            return k;
        }
        void taken(void* p, bool array, std::size_t count, std::size_t size)
        {
            m[p] = K{array, count, size}; // (an entry an abandoned run left behind is overwritten)
        }
        void given_back(void* p, bool array, std::size_t count, std::size_t size)
        {
            auto it = m.find(p);
            if (it == m.end())
                return; // (unknown pointer: the ledger of SimHeap reports it)
            auto k = it->second;
            m.erase(it);
            if (k.array != array || k.count != count || k.size != size)
            {
                char buf[256];
                std::snprintf(buf, sizeof buf,
                              "upstream_release_kind taken as %s(count %zu, size %zu), given back as %s(count %zu, "
                              "size %zu)",
                              k.array ? "array" : "node", k.count, k.size, array ? "array" : "node", count, size);
                SimHeap::get().set_pending(buf);
            }
        }
    };

    // Stateful RawAllocator. Identity (owner id) travels with copies/moves, as a real stateful allocator's
    // resource handle would.
    class sim_raw_allocator
    {
    public:
        using is_stateful = std::true_type;

        explicit sim_raw_allocator(int owner = OWNER_FIRST) noexcept : owner_(owner) {}

        void* allocate_node(std::size_t size, std::size_t alignment)
        {
            void* p = SimHeap::get().request(owner_, size, alignment);
            if (!p)
                throw sim_bad_alloc();
            UpstreamKinds::get().taken(p, false, 1, size);
            return p;
        }
        void deallocate_node(void* p, std::size_t size, std::size_t alignment) noexcept
        {
            UpstreamKinds::get().given_back(p, false, 1, size);
            SimHeap::get().release(owner_, p, size, alignment, false);
        }
        void* allocate_array(std::size_t count, std::size_t size, std::size_t alignment)
        {
            void* p = SimHeap::get().request(owner_, count * size, alignment);
            if (!p)
                throw sim_bad_alloc();
            UpstreamKinds::get().taken(p, true, count, size);
            return p;
        }
        void deallocate_array(void* p, std::size_t count, std::size_t size, std::size_t alignment) noexcept
        {
            UpstreamKinds::get().given_back(p, true, count, size);
            SimHeap::get().release(owner_, p, count * size, alignment, false);
        }
        std::size_t max_node_size() const noexcept
        {
            return std::size_t(-1);
        }
        std::size_t max_alignment() const noexcept
        {
            return 4096;
        }
        int owner() const noexcept
        {
            return owner_;
        }

    private:
        int owner_;
    };

    // Same, but releases must be LIFO per owner (used under arenas: C05's "reverse order").
    class sim_lifo_allocator
    {
    public:
        using is_stateful = std::true_type;

        explicit sim_lifo_allocator(int owner = OWNER_FIRST) noexcept : owner_(owner) {}

        void* allocate_node(std::size_t size, std::size_t alignment)
        {
            void* p = SimHeap::get().request(owner_, size, alignment);
            if (!p)
                throw sim_bad_alloc();
            UpstreamKinds::get().taken(p, false, 1, size);
            return p;
        }
        void deallocate_node(void* p, std::size_t size, std::size_t alignment) noexcept
        {
            UpstreamKinds::get().given_back(p, false, 1, size);
            SimHeap::get().release(owner_, p, size, alignment, true);
        }
        void* allocate_array(std::size_t count, std::size_t size, std::size_t alignment)
        {
            void* p = SimHeap::get().request(owner_, count * size, alignment);
            if (!p)
                throw sim_bad_alloc();
            UpstreamKinds::get().taken(p, true, count, size);
            return p;
        }
        void deallocate_array(void* p, std::size_t count, std::size_t size, std::size_t alignment) noexcept
        {
            UpstreamKinds::get().given_back(p, true, count, size);
            SimHeap::get().release(owner_, p, count * size, alignment, true);
        }
        std::size_t max_node_size() const noexcept
        {
            return std::size_t(-1);
        }
        std::size_t max_alignment() const noexcept
        {
            return 4096;
        }
        int owner() const noexcept
        {
            return owner_;
        }

    private:
        int owner_;
    };

    // BlockAllocator with an arbitrary (seed-derived) block size sequence: sizes vary up and down between
    // block_size and 3*block_size, always a multiple of 16.
    class sim_block_allocator
    {
    public:
        sim_block_allocator(std::size_t block_size, int owner = OWNER_FIRST, unsigned vary = 0) noexcept
        : base_(block_size), owner_(owner), vary_(vary), n_(0), floor_(block_size)
        {
        }

        foonathan::memory::memory_block allocate_block()
        {
            auto  size = next_block_size();
            void* p    = SimHeap::get().request(owner_, size, 16);
            if (!p)
                throw sim_bad_alloc();
            ++n_;
            floor_ = size;
            return {p, size};
        }
        void deallocate_block(foonathan::memory::memory_block b) noexcept
        {
            SimHeap::get().release(owner_, b.memory, b.size, 16, true);
        }
        std::size_t next_block_size() const noexcept
        {
            if (!vary_)
                return base_;
            // deterministic pseudo-random, non-decreasing sequence of irregular sizes (multiples of 16): the
            // library reads next_block_size() as "the maximum I can serve next", which a shrinking sequence
            // would turn into refusals of its own earlier arrays - an exotic BlockAllocator, left out
            std::uint64_t h = (n_ + 1) * 0x9e3779b97f4a7c15ull ^ vary_;
            h ^= h >> 29;
            auto s = base_ + (h % (2 * base_)) / 16 * 16;
            return s < floor_ ? floor_ : s;
        }
        int owner() const noexcept
        {
            return owner_;
        }

    private:
        std::size_t base_;
        int         owner_;
        unsigned    vary_;
        std::size_t n_, floor_;
    };
} // namespace sim
