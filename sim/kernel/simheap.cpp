#include "simheap.hpp"
#include "rng.hpp"

#include <cstdio>
#include <cstdlib>
#include <cstring>
#include <sys/mman.h>

#if defined(__SANITIZE_ADDRESS__)
#include <sanitizer/asan_interface.h>
#define SIM_POISON(p, n) ASAN_POISON_MEMORY_REGION(p, n)
#define SIM_UNPOISON(p, n) ASAN_UNPOISON_MEMORY_REGION(p, n)
#else
#define SIM_POISON(p, n) ((void)(p), (void)(n))
#define SIM_UNPOISON(p, n) ((void)(p), (void)(n))
#endif

extern "C" int   __real_mprotect(void*, size_t, int);
extern "C" void* __real_mmap(void*, size_t, int, int, int, long);

namespace sim
{
    namespace
    {
        constexpr std::size_t REGION  = 192u << 20;
        constexpr std::size_t HARNESS = 2u << 20; // below / above areas
        constexpr std::size_t GUARD   = 64;
        constexpr std::size_t PAGE    = 4096;

        std::size_t up(std::size_t v, std::size_t a)
        {
            return (v + a - 1) / a * a;
        }
        std::size_t down(std::size_t v, std::size_t a)
        {
            return v / a * a;
        }
    } // namespace

    SimHeap& SimHeap::get()
    {
        static SimHeap* h = new SimHeap; // never destroyed: must outlive all static destructors
        return *h;
    }

    SimHeap::SimHeap()
    {
        void* p = __real_mmap(nullptr, REGION, PROT_READ | PROT_WRITE,
                         MAP_PRIVATE | MAP_ANONYMOUS | MAP_NORESERVE, -1, 0);
        if (p == MAP_FAILED)
        {
            std::fprintf(stderr, "HARNESS-ERROR simheap mmap failed\n");
            std::_Exit(2);
        }
        base_ = static_cast<char*>(p);
        size_ = REGION;
        SIM_POISON(base_, size_);
        lo_area_ = HARNESS;
        hi_area_ = REGION - HARNESS;
        armed_ = suspended_ = fault_fired_ = false;
        fail_at_                           = 0;
        op_calls_ = op_releases_ = 0;
        seq_ = total_requests_ = 0;
        reset(PLACE_ASC, false, false, 1);
    }

    void SimHeap::reset(int place, bool minalign, bool reuse_dirty, std::uint64_t seed)
    {
        // force-release whatever is still live (poison again, restore page protection)
        while (!live_.empty())
            drop(live_.begin());
        freed_.clear();
        lifo_.clear();
        events_.clear();
        pending_.clear();
        exhausted_ = false;
        lo_cur_      = lo_area_;
        hi_cur_      = hi_area_;
        below_cur_   = 0;
        above_cur_   = REGION - HARNESS;
        place_       = place;
        minalign_    = minalign;
        reuse_dirty_ = reuse_dirty;
        flip_        = false;
        seed_        = seed;
        seq_         = 0;
        hint_off_    = -1;
        hint_after_  = false;
        armed_ = suspended_ = fault_fired_ = false;
        fail_at_                           = 0;
        op_calls_ = op_releases_ = 0;
    }

    void SimHeap::drop(std::map<std::size_t, Block>::iterator it)
    {
        auto& b = it->second;
        if (b.owner == OWNER_MMAP)
            __real_mprotect(base_ + b.off, up(b.size, PAGE), PROT_READ | PROT_WRITE);
        SIM_POISON(base_ + b.off, b.size);
        live_.erase(it);
    }

    std::size_t SimHeap::live_count(int owner_min) const
    {
        std::size_t n = 0;
        for (auto& kv : live_)
            if (kv.second.owner >= owner_min)
                ++n;
        return n;
    }

    std::size_t SimHeap::live_count_owner(int owner) const
    {
        std::size_t n = 0;
        for (auto& kv : live_)
            if (kv.second.owner == owner)
                ++n;
        return n;
    }

    void SimHeap::fill_garbage(char* p, std::size_t n, std::uint64_t key)
    {
        // non-zero, never a debug_magic value
        unsigned char tab[256];
        Rng           r(mix(seed_, key));
        for (auto& b : tab)
        {
            auto v = (unsigned char)(r.next() >> 13);
            if (v == 0x00 || v == 0xAB || v == 0xFB || v == 0xCD || v == 0xDD || v == 0xED
                || v == 0xFD)
                v ^= 0x55;
            b = v;
        }
        std::size_t phase = key % 251;
        while (n)
        {
            std::size_t c = 256 - phase;
            if (c > n)
                c = n;
            std::memcpy(p, tab + phase, c);
            p += c;
            n -= c;
            phase = 0;
        }
    }

    std::size_t SimHeap::place(std::size_t size, std::size_t align, std::size_t guard)
    {
        if (align < 1)
            align = 1;
        if (place_ == PLACE_REUSE)
        {
            for (std::size_t i = freed_.size(); i-- > 0;)
                if (freed_[i].second == size && freed_[i].first % align == 0)
                {
                    auto off = freed_[i].first;
                    freed_.erase(freed_.begin() + (long)i);
                    return off;
                }
        }
        bool top = place_ == PLACE_DESC || place_ == PLACE_ADJ_DESC
                   || (place_ == PLACE_ALTERNATE && flip_);
        flip_ = !flip_;
        std::size_t gap = guard;
        if (place_ == PLACE_ADJ_ASC || place_ == PLACE_ADJ_DESC)
            gap = 0;
        else if (place_ == PLACE_RANDGAP)
        {
            Rng r(mix(seed_, 0x9a9 + seq_));
            gap = guard + 16 * r.below(64);
            if (r.chance(1, 8))
                gap += 4096 * r.below(16);
        }
        std::size_t off;
        if (!top)
        {
            off = up(lo_cur_ + gap, align);
            if (minalign_ && align >= 16 && off % (2 * align) == 0)
                off += align;
            if (off + size + gap > hi_cur_)
                return npos;
            lo_cur_ = off + size;
        }
        else
        {
            if (hi_cur_ < size + gap + 2 * align + lo_cur_)
                return npos;
            off = down(hi_cur_ - gap - size, align);
            if (minalign_ && align >= 16 && off % (2 * align) == 0)
                off -= align;
            if (off < lo_cur_ + gap)
                return npos;
            hi_cur_ = off;
        }
        return off;
    }

    void (*g_upstream_hook)(const char*) = nullptr;

    void* SimHeap::request(int owner, std::size_t size, std::size_t align)
    {
        if (g_upstream_hook)
            g_upstream_hook("upstream.request");
        if (exhausted_)
        {
            fault_fired_ = true;
            return nullptr;
        }
        if (armed_ && !suspended_)
        {
            ++op_calls_;
            ++total_requests_;
            if (fail_at_ && (int)op_calls_ == fail_at_)
            {
                fault_fired_ = true;
                return nullptr;
            }
        }
        if (size == 0)
            size = 1;
        if (size > (256u << 10))
        {
            // an upstream that says no to very large requests: a legitimate failure, not an injected fault
            stats_too_large_++;
            return nullptr;
        }
        auto off = place(size, align, GUARD);
        if (off == npos)
        {
            set_pending("HARNESS:simheap_exhausted");
            return nullptr;
        }
        Block b;
        b.off             = off;
        b.size            = size;
        b.align           = align;
        b.owner           = owner;
        b.seq             = ++seq_;
        b.committed_pages = 0;
        live_[off]        = b;
        lifo_[owner].push_back(off);
        events_.push_back({true, owner, off, size});
        SIM_UNPOISON(base_ + off, size);
        fill_garbage(base_ + off, size, b.seq);
        return base_ + off;
    }

    void SimHeap::release(int owner, void* p, std::size_t size, std::size_t align, bool check_lifo)
    {
        if (g_upstream_hook)
            g_upstream_hook("upstream.release");
        if (armed_ && !suspended_)
            ++op_releases_;
        char buf[256];
        if (!contains(p))
        {
            std::snprintf(buf, sizeof buf, "release_foreign owner=%d ptr_outside_simheap", owner);
            set_pending(buf);
            return;
        }
        auto it = live_.find(off(p));
        if (it == live_.end())
        {
            auto c = find(p);
            std::snprintf(buf, sizeof buf, "release_unknown owner=%d off=%zu size=%zu %s", owner, off(p),
                          size == npos ? 0 : size,
                          c ? "(inside a live block, not its start)" : "(not live: double release?)");
            set_pending(buf);
            return;
        }
        auto& b = it->second;
        if (b.owner != owner)
        {
            std::snprintf(buf, sizeof buf, "release_wrong_owner owner=%d block_owner=%d off=%zu", owner,
                          b.owner, b.off);
            set_pending(buf);
            return;
        }
        if (size != npos && size != b.size)
        {
            std::snprintf(buf, sizeof buf, "release_size_mismatch owner=%d off=%zu acquired=%zu released=%zu",
                          owner, b.off, b.size, size);
            set_pending(buf);
        }
        if (size != npos && align != 0 && align != b.align)
        {
            std::snprintf(buf, sizeof buf,
                          "release_align_mismatch owner=%d off=%zu acquired=%zu released=%zu", owner,
                          b.off, b.align, align);
            set_pending(buf);
        }
        auto& st = lifo_[owner];
        if (check_lifo && (st.empty() || st.back() != b.off))
        {
            std::snprintf(buf, sizeof buf, "release_not_lifo owner=%d off=%zu expected_off=%zu", owner,
                          b.off, st.empty() ? 0 : st.back());
            set_pending(buf);
        }
        for (std::size_t i = st.size(); i-- > 0;)
            if (st[i] == b.off)
            {
                st.erase(st.begin() + (long)i);
                break;
            }
        events_.push_back({false, owner, b.off, b.size});
        freed_.push_back({b.off, b.size});
        drop(it);
    }

    void* SimHeap::harness_alloc(std::size_t size, std::size_t align, int where)
    {
        std::size_t off;
        if (where == 0)
        {
            off = up(below_cur_ + GUARD, align);
            if (off + size + GUARD > HARNESS)
                return nullptr;
            below_cur_ = off + size;
        }
        else if (where == 1)
        {
            off = up(above_cur_ + GUARD, align);
            if (off + size + GUARD > REGION)
                return nullptr;
            above_cur_ = off + size;
        }
        else
        {
            off = place(size, align, GUARD);
            if (off == npos)
                return nullptr;
        }
        Block b;
        b.off             = off;
        b.size            = size;
        b.align           = align;
        b.owner           = OWNER_HARNESS;
        b.seq             = ++seq_;
        b.committed_pages = 0;
        live_[off]        = b;
        SIM_UNPOISON(base_ + off, size);
        fill_garbage(base_ + off, size, b.seq);
        return base_ + off;
    }

    void* SimHeap::harness_alloc_at(std::size_t off, std::size_t size)
    {
        if (off + size > size_ || size == 0)
            return nullptr;
        auto it = live_.lower_bound(off);
        if (it != live_.end() && it->first < off + size)
            return nullptr;
        if (it != live_.begin())
        {
            --it;
            if (it->second.off + it->second.size > off)
                return nullptr;
        }
        Block b;
        b.off             = off;
        b.size            = size;
        b.align           = 1;
        b.owner           = OWNER_HARNESS;
        b.seq             = ++seq_;
        b.committed_pages = 0;
        live_[off]        = b;
        SIM_UNPOISON(base_ + off, size);
        fill_garbage(base_ + off, size, b.seq);
        return base_ + off;
    }

    std::vector<std::pair<std::size_t, std::size_t>> SimHeap::blocks_of(int owner) const
    {
        std::vector<std::pair<std::size_t, std::size_t>> r;
        for (auto& kv : live_)
            if (kv.second.owner == owner)
                r.push_back({kv.second.off, kv.second.size});
        return r;
    }

    void SimHeap::harness_free(void* p)
    {
        auto it = live_.find(off(p));
        if (it != live_.end() && it->second.owner == OWNER_HARNESS)
            drop(it);
    }

    bool SimHeap::commit(void* p, std::size_t len, bool on)
    {
        auto b = find(p);
        if (!b || b->owner != OWNER_MMAP)
            return false;
        if (off(p) + len > b->off + up(b->size, PAGE))
            return false;
        if (on)
        {
            __real_mprotect(p, len, PROT_READ | PROT_WRITE);
            SIM_UNPOISON(p, len);
            fill_garbage(static_cast<char*>(p), len, off(p) ^ 0x77);
        }
        else
        {
            SIM_POISON(p, len);
            __real_mprotect(p, len, PROT_NONE);
        }
        return true;
    }

    const Block* SimHeap::find(const void* p) const
    {
        if (!contains(p))
            return nullptr;
        auto o  = off(p);
        auto it = live_.upper_bound(o);
        if (it == live_.begin())
            return nullptr;
        --it;
        auto& b = it->second;
        return o < b.off + b.size ? &b : nullptr;
    }

    const Block* SimHeap::find_start(const void* p) const
    {
        if (!contains(p))
            return nullptr;
        auto it = live_.find(off(p));
        return it == live_.end() ? nullptr : &it->second;
    }

    void SimHeap::hint_adjacent(const void* block_start, bool after)
    {
        hint_off_   = (long long)off(block_start);
        hint_after_ = after;
    }

    std::string SimHeap::take_pending()
    {
        std::string s;
        s.swap(pending_);
        return s;
    }

    void SimHeap::set_pending(const std::string& s)
    {
        if (pending_.empty() || (pending_.compare(0, 8, "HARNESS:") != 0 && s.compare(0, 8, "HARNESS:") == 0))
            pending_ = s;
    }
} // namespace sim
