// SimHeap: the simulated upstream memory source. One address-space region per process, managed by the
// simulator: placement policy, garbage content, ownership ledger, LIFO and exact-match release checks,
// fault injection ("the k-th upstream request made by this op fails"), ASan poisoning of everything that is
// not inside a live block.
#pragma once
#include <cstddef>
#include <cstdint>
#include <map>
#include <string>
#include <vector>

namespace sim
{
    enum Owner : int
    {
        OWNER_NONE    = 0,
        OWNER_HARNESS = 1, // object slots, static storage handed to the SUT by the harness
        OWNER_MALLOC  = 2, // wrapped malloc/free
        OWNER_NEW     = 3, // wrapped operator new(nothrow)/delete
        OWNER_MMAP    = 4, // wrapped mmap/munmap
        OWNER_FIRST   = 16 // sim_raw_allocator / sim_block_allocator instances: OWNER_FIRST + n
    };

    enum Place : int
    {
        PLACE_ASC = 0,   // ascending bump, guard gaps
        PLACE_DESC,      // descending bump, guard gaps
        PLACE_RANDGAP,   // ascending, random gaps
        PLACE_REUSE,     // most recently freed block of the same size first, else ascending
        PLACE_ADJ_ASC,   // zero gap, ascending (next block starts exactly at the end of the previous)
        PLACE_ADJ_DESC,  // zero gap, descending (next block ends exactly where the previous starts)
        PLACE_ALTERNATE, // alternately from below and from above
        PLACE_COUNT
    };

    struct Block
    {
        std::size_t   off, size, align;
        int           owner;
        std::uint64_t seq; // acquisition sequence number (per heap)
        unsigned      committed_pages; // OWNER_MMAP only
    };

    struct HeapEvent // upstream ledger entry, for the C05 oracle and run hash
    {
        bool        acquire;
        int         owner;
        std::size_t off, size;
    };

    class SimHeap
    {
    public:
        static SimHeap& get();

        // --- per run ---
        void reset(int place, bool minalign, bool reuse_dirty, std::uint64_t seed);
        // end of run: returns number of blocks still live for owners >= OWNER_MALLOC (excluding harness)
        std::size_t live_count(int owner_min = OWNER_MALLOC) const;
        std::size_t live_count_owner(int owner) const;

        // --- requests (from sim allocators and libc wrappers) ---
        // returns nullptr if the injected fault strikes
        void* request(int owner, std::size_t size, std::size_t align);
        // release with full check; size==npos: size unknown to caller (free)
        static constexpr std::size_t npos = std::size_t(-1);
        void release(int owner, void* p, std::size_t size, std::size_t align, bool check_lifo);
        // counts an upstream call that carries no memory of its own (mprotect-commit); false if the fault strikes
        void set_exhausted(bool e)
        {
            exhausted_ = e;
        }
        bool exhausted() const
        {
            return exhausted_;
        }
        bool request_fault_only()
        {
            if (armed_ && !suspended_)
            {
                ++op_calls_;
                ++total_requests_;
                if (fail_at_ && (int)op_calls_ == fail_at_)
                {
                    fault_fired_ = true;
                    return false;
                }
            }
            return true;
        }
        // harness-owned memory (slots, static storage): where = 0 below the block area, 1 above, 2 inside
        void* harness_alloc(std::size_t size, std::size_t align, int where);
        void  harness_free(void* p);
        // harness-owned memory at an exact position (adjacent to some block); nullptr if occupied
        void* harness_alloc_at(std::size_t off, std::size_t size);
        // offsets of the live blocks of an owner, in address order
        std::vector<std::pair<std::size_t, std::size_t>> blocks_of(int owner) const;

        // mmap emulation
        bool commit(void* p, std::size_t len, bool on); // mprotect; false if not a reserved range

        // --- fault injection, attached to the current op ---
        void begin_op(int fail_at)
        {
            op_calls_ = op_releases_ = 0;
            fail_at_  = fail_at;
            armed_    = true;
        }
        void end_op()
        {
            armed_   = false;
            fail_at_ = 0;
        }
        bool armed() const
        {
            return armed_;
        }
        void suspend(bool s) // harness code running inside an op (handlers): never failed, never counted
        {
            suspended_ = s;
        }
        unsigned op_calls() const
        {
            return op_calls_;
        }
        unsigned op_releases() const
        {
            return op_releases_;
        }
        void reset_op_counters()
        {
            op_calls_ = op_releases_ = 0;
        }
        bool fault_fired() const
        {
            return fault_fired_;
        }
        void clear_fault_fired()
        {
            fault_fired_ = false;
        }

        // --- queries ---
        bool contains(const void* p) const
        {
            auto c = static_cast<const char*>(p);
            return c >= base_ && c < base_ + size_;
        }
        std::size_t off(const void* p) const
        {
            return std::size_t(static_cast<const char*>(p) - base_);
        }
        char* at(std::size_t off) const
        {
            return base_ + off;
        }
        const Block* find(const void* p) const; // live block containing p
        const Block* find_start(const void* p) const;
        // next request will be placed directly after/before this block if the policy allows (C08 adjacency)
        void hint_adjacent(const void* block_start, bool after);

        // pending problem detected inside a noexcept context (release checks): "" if none
        std::string take_pending();
        void        set_pending(const std::string& s);

        const std::vector<HeapEvent>& events() const
        {
            return events_;
        }
        std::uint64_t stats_too_large_ = 0;
        std::uint64_t total_requests() const
        {
            return total_requests_;
        }

    private:
        SimHeap();
        std::size_t place(std::size_t size, std::size_t align, std::size_t guard);
        void        fill_garbage(char* p, std::size_t n, std::uint64_t key);
        void        drop(std::map<std::size_t, Block>::iterator it);

        char*       base_;
        std::size_t size_;
        std::size_t lo_area_, hi_area_;     // block area [lo_area_, hi_area_)
        std::size_t lo_cur_, hi_cur_;       // bump cursors in the block area
        std::size_t below_cur_, above_cur_; // bump cursors of the harness areas
        int         place_;
        bool        minalign_, reuse_dirty_, flip_;
        std::uint64_t seed_, seq_, total_requests_;

        std::map<std::size_t, Block>                       live_;  // by offset
        std::vector<std::pair<std::size_t, std::size_t>>   freed_; // (off,size), most recent last
        std::map<int, std::vector<std::size_t>>            lifo_;  // per owner acquisition stack (offsets)
        std::vector<HeapEvent>                             events_;
        long long hint_off_;
        bool      hint_after_;

        bool        armed_, suspended_, fault_fired_;
        bool        exhausted_ = false; // every request fails until somebody (a new_handler) clears it
        int         fail_at_;
        unsigned    op_calls_, op_releases_;
        std::string pending_;
    };

    // scheduling-point hook (schedsim): called at every upstream request / release
    extern void (*g_upstream_hook)(const char*);
    // The exception the simulated upstream throws on an injected failure.
} // namespace sim

#include <new>
namespace sim
{
    struct sim_bad_alloc : std::bad_alloc
    {
        const char* what() const noexcept override
        {
            return "sim: injected upstream allocation failure";
        }
    };
} // namespace sim
