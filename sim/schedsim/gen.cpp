#include "modes.hpp"

using namespace sim;

namespace ss
{
    Plan generate(const std::string& profile_in, std::uint64_t seed)
    {
        Rng         r(seed);
        Plan        p;
        std::string profile = profile_in;
        bool        thorough = false;
        auto        dot      = profile.find('.');
        if (dot != std::string::npos)
        {
            thorough = profile.substr(dot + 1) == "thorough";
            profile  = profile.substr(0, dot);
        }
        p.set("profile", profile);
        p.set("seed", (long long)seed);
        p.set("sseed", (long long)(r.next() >> 2));
        p.set("hseed", (long long)(r.next() >> 2));
        if (profile == "C13" || profile == "C15T")
        {
            p.set("mode", "ts");
            int tasks = int(r.range(2, 4));
            p.set("tasks", tasks);
            p.set("variant", profile == "C15T" ? 6ll : (long long)r.below(14)); // C15T: the process-wide counters only
            p.set("lock_fail", r.chance(2, 3) ? (long long)r.range(1, 12) : 0); // variant 11: the k-th lock() throws
            if (r.chance(1, 3))
            {
                // the wrapped allocator fails (throws) at the k-th throwing allocation call, then every j-th
                p.set("probe_fail", (long long)r.range(1, 8));
                p.set("probe_fail_again", r.chance(1, 2) ? (long long)r.range(1, 5) : 0);
            }
            p.set("budget", 5000);
            auto ns = r.pick<long long>({8, 16, 32, 64});
            p.set("node_size", ns);
            p.set("block_size", 16 + ns * (long long)r.range(1, 6));
            for (int t = 0; t < tasks; ++t)
            {
                std::size_t n = thorough ? r.range(5, 30) : r.range(2, 14);
                for (std::size_t i = 0; i < n; ++i)
                {
                    switch (r.below(10))
                    {
                    case 0:
                    case 1:
                    case 2:
                        p.add("n", {0, (long long)r.below(100), (long long)r.below(2)}, 0, t);
                        break;
                    case 3:
                        p.add("a", {(long long)r.below(6), (long long)r.below(100), (long long)r.below(2)}, 0, t);
                        break;
                    case 4:
                    case 5:
                    case 6:
                        p.add("f", {(long long)r.below(100)}, 0, t);
                        break;
                    case 7:
                        p.add("mx", {(long long)r.below(3)}, 0, t);
                        break;
                    default:
                        p.add("lk", {(long long)r.below(2)}, 0, t);
                    }
                }
            }
        }
        else if (profile == "C14")
        {
            p.set("mode", "temp");
            int workers = int(r.range(1, 3));
            p.set("tasks", workers + 1);
            p.set("budget", 4000);
            p.set("main_uses", r.chance(3, 4) ? 1 : 0);
            p.set("exit_user", r.chance(1, 3) ? 1 : 0); // a static object's destructor uses a temporary_allocator
            if (r.chance(1, 6))
            {
                p.set("malloc_fail", (long long)r.range(1, 6));
                if (r.chance(1, 2))
                    p.set("user_oom", 1); // out_of_memory handler that throws its own exception type
            }
            // task 0 is the main thread: it starts and joins the workers at drawn points
            std::vector<int> started, joined;
            std::size_t      nmain = thorough ? r.range(6, 30) : r.range(4, 16);
            int              next_worker = 1;
            for (std::size_t i = 0; i < nmain; ++i)
            {
                auto k = r.below(10);
                if (k < 2 && next_worker <= workers)
                {
                    p.add("start", {next_worker}, 0, 0);
                    started.push_back(next_worker++);
                }
                else if (k < 4 && !started.empty())
                {
                    auto j = r.below(started.size());
                    p.add("join", {started[j]}, 0, 0);
                    started.erase(started.begin() + (long)j);
                }
                else if (p.num("main_uses"))
                {
                    static const char* ops[] = {"push", "push", "alloc", "alloc", "alloc", "pop", "pop",
                                                "init", "uninit", "get", "shrink"};
                    p.add(ops[r.below(sizeof ops / sizeof *ops)], {(long long)r.below(600), (long long)r.below(7)}, 0, 0);
                }
            }
            while (next_worker <= workers)
            {
                p.add("start", {next_worker}, 0, 0);
                started.push_back(next_worker++);
            }
            for (auto w : started)
                p.add("join", {w}, 0, 0);
            for (int t = 1; t <= workers; ++t)
            {
                std::size_t n = thorough ? r.range(3, 25) : r.range(2, 12);
                for (std::size_t i = 0; i < n; ++i)
                {
                    static const char* ops[] = {"push", "push", "alloc", "alloc", "alloc", "pop", "pop",
                                                "init", "uninit", "get", "shrink"};
                    p.add(ops[r.below(sizeof ops / sizeof *ops)], {(long long)r.below(600), (long long)r.below(7)}, 0, t);
                }
            }
        }
        return p;
    }
} // namespace ss
