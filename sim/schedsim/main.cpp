#include "modes.hpp"

namespace ss
{
    __attribute__((weak)) void run_temp(const sim::Plan&, sim::RunResult& res, sim::RunHash&)
    {
        res.skip = "temp mode not built";
    }
} // namespace ss

namespace
{
    class SchedSim : public sim::Engine
    {
    public:
        const char* name() const override
        {
            return "schedsim";
        }
        sim::Plan generate(const std::string& profile, std::uint64_t seed) override
        {
            return ss::generate(profile, seed);
        }
        sim::RunResult execute(const sim::Plan& p) override
        {
            sim::RunResult res;
            sim::RunHash   hash;
            auto&          heap = sim::SimHeap::get();
            heap.reset(0, false, false, (std::uint64_t)p.num("hseed", 1));
            auto mode = p.get("mode");
            if (mode == "ts")
                ss::run_ts(p, res, hash);
            else if (mode == "temp")
                ss::run_temp(p, res, hash);
            else
                res.skip = "unknown mode";
            res.hash = hash.h;
            res.ops  = p.ops.size();
            return res;
        }
    };
} // namespace

int main(int argc, char** argv)
{
    SchedSim e;
    return sim::engine_main(argc, argv, e);
}
