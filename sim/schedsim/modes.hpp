#pragma once
#include "sched.hpp"
#include "../kernel/engine.hpp"
#include "../kernel/report.hpp"
#include "../kernel/simheap.hpp"

namespace ss
{
    void      run_ts(const sim::Plan& plan, sim::RunResult& res, sim::RunHash& hash);
    void      run_temp(const sim::Plan& plan, sim::RunResult& res, sim::RunHash& hash);
    sim::Plan generate(const std::string& profile, std::uint64_t seed);
} // namespace ss
