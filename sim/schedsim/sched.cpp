#include "sched.hpp"

#include <cstdio>

namespace ss
{
    namespace
    {
        thread_local int tl_task = -1;
        thread_local int tl_held = 0;
        unsigned long    g_locks = 0;

        // constructed first in every task thread => destroyed after every thread_local the task created later
        // (e.g. the library's thread_exit_detector): only then is the task gone for the scheduler
        struct TaskGuard
        {
            int id = -1;
            ~TaskGuard();
        };
        thread_local TaskGuard tl_guard;
    } // namespace

    Sched& Sched::get()
    {
        static Sched* s = new Sched;
        return *s;
    }

    int Sched::current_task()
    {
        return tl_task;
    }

    void Sched::reset(std::uint64_t seed, unsigned step_budget)
    {
        for (auto t : tasks_)
            delete t;
        tasks_.clear();
        running_         = -1;
        rng_             = sim::Rng(seed);
        budget_          = step_budget;
        deadlock         = false;
        budget_exhausted = false;
        problem.clear();
        steps = preemptions = 0;
        picks.clear();
        active_    = false;
        last_pick_ = -1;
        g_locks    = 0;
        on_task_gone = nullptr;
    }

    std::uint64_t Sched::schedule_hash() const
    {
        std::uint64_t h = 1469598103934665603ull;
        for (auto p : picks)
            h = (h ^ p) * 1099511628211ull;
        return h;
    }

    void Sched::fail(const std::string& what)
    {
        if (problem.empty())
            problem = what;
    }

    // must be called with m_ held; returns the task to run next or -1 (controller: all done / deadlock / budget)
    int Sched::pick()
    {
        std::vector<int> runnable;
        bool             all_done = true;
        for (std::size_t i = 0; i < tasks_.size(); ++i)
        {
            if (tasks_[i]->st == RUNNABLE)
                runnable.push_back(int(i));
            if (tasks_[i]->st != DONE)
                all_done = false;
        }
        if (runnable.empty())
        {
            if (!all_done)
                deadlock = true;
            return -1;
        }
        if (++steps > budget_)
        {
            budget_exhausted = true;
            return -1;
        }
        int next;
        // half of the time keep running the same task (if it can), else uniform among the runnable ones
        bool same_ok = false;
        for (auto r : runnable)
            same_ok = same_ok || r == last_pick_;
        if (same_ok && rng_.chance(1, 2))
            next = last_pick_;
        else
            next = runnable[rng_.below(runnable.size())];
        if (last_pick_ >= 0 && next != last_pick_ && tasks_[std::size_t(last_pick_)]->st == RUNNABLE)
            ++preemptions;
        last_pick_ = next;
        picks.push_back(std::uint8_t(next));
        return next;
    }

    void Sched::switch_to_scheduler(int me)
    {
        // m_ is held by the caller (unique_lock passed implicitly through cv wait below)
        (void)me;
    }

    void Sched::yield(const char* site)
    {
        int me = tl_task;
        if (me < 0 || !active_)
            return;
        std::unique_lock<std::mutex> lk(m_);
        tasks_[std::size_t(me)]->site = site;
        int next                      = pick();
        if (next == me)
            return;
        running_ = next;
        cv_.notify_all();
        cv_.wait(lk, [&] { return running_ == me; });
    }

    void Sched::block_on(const void* mtx)
    {
        int                          me = tl_task;
        std::unique_lock<std::mutex> lk(m_);
        auto&                        t = *tasks_[std::size_t(me)];
        t.st                           = BLOCKED;
        t.blocked_on                   = mtx;
        running_                       = pick();
        cv_.notify_all();
        cv_.wait(lk, [&] { return running_ == me; });
    }

    void Sched::unblock_all(const void* mtx)
    {
        std::unique_lock<std::mutex> lk(m_);
        for (auto t : tasks_)
            if (t->st == BLOCKED && t->blocked_on == mtx)
            {
                t->st         = RUNNABLE;
                t->blocked_on = nullptr;
            }
    }

    void Sched::join(int id)
    {
        int me = tl_task;
        {
            std::unique_lock<std::mutex> lk(m_);
            if (tasks_[std::size_t(id)]->st != DONE)
            {
                auto& t   = *tasks_[std::size_t(me)];
                t.st      = JOINING;
                t.join_on = id;
                running_  = pick();
                cv_.notify_all();
                cv_.wait(lk, [&] { return running_ == me; });
            }
        }
        auto& th = tasks_[std::size_t(id)]->thread;
        if (th.joinable())
            th.join();
    }

    namespace
    {
        TaskGuard::~TaskGuard()
        {
            if (id < 0)
                return;
            // the task (including its thread-local destructors) is over
            auto& s = Sched::get();
            s.yield("thread.gone"); // one more scheduling point before it disappears
            s.task_done_(id);
        }
    } // namespace

    void Sched::task_done_(int id)
    {
        if (on_task_gone)
            on_task_gone(id);
        std::unique_lock<std::mutex> lk(m_);
        tasks_[std::size_t(id)]->st = DONE;
        for (auto t : tasks_)
            if (t->st == JOINING && t->join_on == id)
            {
                t->st      = RUNNABLE;
                t->join_on = -1;
            }
        tl_task  = -1;
        running_ = pick();
        cv_.notify_all();
    }

    void Sched::task_entry(int id, std::function<void()> body)
    {
        tl_guard.id = id; // touches (constructs) the guard first
        tl_task     = id;
        tl_held     = 0;
        {
            std::unique_lock<std::mutex> lk(m_);
            cv_.wait(lk, [&] { return running_ == id; });
        }
        body();
        yield("thread.body_end");
        // thread-local destructors run now, still as the running task; ~TaskGuard hands over at the very end
    }

    int Sched::spawn(std::function<void()> body)
    {
        int id;
        {
            std::unique_lock<std::mutex> lk(m_);
            id = int(tasks_.size());
            tasks_.push_back(new Task);
        }
        tasks_[std::size_t(id)]->thread = std::thread([this, id, body] { task_entry(id, body); });
        return id;
    }

    void Sched::run()
    {
        // controller is not a task: start the first pick and wait for the end
        std::unique_lock<std::mutex> lk(m_);
        active_  = true;
        running_ = pick();
        cv_.notify_all();
        cv_.wait(lk, [&] { return running_ == -1; });
        active_ = deadlock || budget_exhausted; // parked tasks must stay parked
        lk.unlock();
        if (!deadlock && !budget_exhausted)
            for (auto t : tasks_)
                if (t->thread.joinable())
                    t->thread.join();
    }

    void Sched::run_with_main(std::function<void()> main_body)
    {
        // the calling thread is task 0
        {
            std::unique_lock<std::mutex> lk(m_);
            tasks_.insert(tasks_.begin(), new Task);
            tasks_[0]->is_main = true;
            active_            = true;
            tl_task            = 0;
            tl_held            = 0;
            running_           = 0;
            last_pick_         = 0;
        }
        main_body();
        {
            std::unique_lock<std::mutex> lk(m_);
            tasks_[0]->st = DONE;
            tl_task       = -1;
            // everything else must be over by now (main joined its threads); otherwise let them finish
            running_ = pick();
            cv_.notify_all();
            cv_.wait(lk, [&] { return running_ == -1; });
            active_ = false;
        }
    }

    //=== SimMutex ===//
    SimMutex::SimMutex() noexcept {}

    unsigned long SimMutex::locks_taken()
    {
        return g_locks;
    }
    void SimMutex::reset_counters()
    {
        g_locks = 0;
    }
    bool SimMutex::held_by_current()
    {
        return tl_held > 0;
    }

    void SimMutex::lock()
    {
        auto& s = Sched::get();
        ++g_locks;
        if (!s.active() || Sched::current_task() < 0)
        {
            owner_ = -2;
            ++tl_held;
            return;
        }
        s.yield("mutex.lock");
        while (owner_ != -1)
        {
            if (owner_ == Sched::current_task())
            {
                s.fail("a task locked a SimMutex it already holds (self deadlock)");
                break;
            }
            s.block_on(this);
        }
        owner_ = Sched::current_task();
        ++tl_held;
    }

    bool SimMutex::try_lock()
    {
        if (owner_ != -1)
            return false;
        lock();
        return true;
    }

    void SimMutex::unlock() noexcept
    {
        auto& s = Sched::get();
        if (owner_ == -2)
        {
            owner_ = -1;
            --tl_held;
            return;
        }
        if (owner_ != Sched::current_task())
            s.fail(owner_ == -1 ? "a SimMutex was unlocked although it is not locked (double unlock)" :
                                  "a SimMutex was unlocked by a task that does not own it");
        owner_ = -1;
        --tl_held;
        s.unblock_all(this);
        s.yield("mutex.unlock");
    }
} // namespace ss

//=== std::mutex inside the system under test (make_thread_safe_allocator's default) ===//
#include <pthread.h>
extern "C"
{
    int __real_pthread_mutex_lock(pthread_mutex_t*);
    int __real_pthread_mutex_unlock(pthread_mutex_t*);
}
namespace
{
    const char* g_mtx_lo = nullptr;
    const char* g_mtx_hi = nullptr;
    ss::SimMutex& stand_in()
    {
        static ss::SimMutex* m = new ss::SimMutex;
        return *m;
    }
    bool simulated(const pthread_mutex_t* m)
    {
        auto c = reinterpret_cast<const char*>(m);
        return g_mtx_lo && c >= g_mtx_lo && c < g_mtx_hi;
    }
} // namespace
namespace ss
{
    void simulate_std_mutexes_in(const void* lo, const void* hi)
    {
        g_mtx_lo = static_cast<const char*>(lo);
        g_mtx_hi = static_cast<const char*>(hi);
    }
} // namespace ss
extern "C" int __wrap_pthread_mutex_lock(pthread_mutex_t* m)
{
    if (simulated(m))
    {
        stand_in().lock();
        return 0;
    }
    return __real_pthread_mutex_lock(m);
}
extern "C" int __wrap_pthread_mutex_unlock(pthread_mutex_t* m)
{
    if (simulated(m))
    {
        stand_in().unlock();
        return 0;
    }
    return __real_pthread_mutex_unlock(m);
}
