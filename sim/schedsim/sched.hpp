// schedsim: seeded scheduler over real OS threads. Exactly one task runs at a time; it runs until its next
// scheduling point (sim_yield, SimMutex lock/unlock, task end) and parks; the scheduler then picks the next
// runnable task from the seed. The choice of who runs is never left to the OS.
#pragma once
#include "../kernel/rng.hpp"

#include <condition_variable>
#include <functional>
#include <mutex>
#include <string>
#include <thread>
#include <vector>

namespace ss
{
    class Sched
    {
    public:
        static Sched& get();

        // --- harness side ---
        void reset(std::uint64_t seed, unsigned step_budget);
        // creates a task running body on a new thread (parked until scheduled); returns its id.
        // May be called by the controller before run() or by a running task (thread start inside a run).
        int  spawn(std::function<void()> body);
        // the calling (controller) thread becomes task 0 and runs body itself (needed when a task must be the
        // real main thread)
        void run_with_main(std::function<void()> main_body);
        // controller loop: schedules until all tasks are done, a deadlock or the budget
        void run();

        // outcome
        bool                     deadlock = false, budget_exhausted = false;
        std::string              problem; // first oracle problem recorded by simulator-owned code
        unsigned                 steps = 0, preemptions = 0;
        std::vector<std::uint8_t> picks; // recorded schedule (task ids)
        std::uint64_t             schedule_hash() const;

        // --- task side ---
        static int  current_task(); // -1 outside any task
        void        yield(const char* site);
        void        fail(const std::string& what); // record a problem (first one wins)
        bool        active() const
        {
            return active_;
        }
        // wait until task t has finished (a scheduling point; the joiner is blocked meanwhile)
        void join(int t);

        std::function<void(int)> on_task_gone; // harness callback, runs when a task thread is completely gone
        void task_done_(int id); // internal: called when a task thread is completely gone

        // mutex support
        void block_on(const void* m);
        void unblock_all(const void* m);

    private:
        enum St
        {
            RUNNABLE,
            BLOCKED,
            JOINING,
            DONE
        };
        struct Task
        {
            std::thread thread;
            St          st       = RUNNABLE;
            const void* blocked_on = nullptr;
            int         join_on  = -1;
            const char* site     = "start";
            bool        is_main  = false;
        };
        void switch_to_scheduler(int me); // called with lock held
        void task_entry(int id, std::function<void()> body);
        int  pick();
        void loop(int main_task);

        std::mutex              m_;
        std::condition_variable cv_;
        std::vector<Task*>      tasks_;
        int                     running_ = -1; // task allowed to run, -1: controller
        sim::Rng                rng_{1};
        unsigned                budget_ = 0;
        bool                    active_ = false;
        int                     last_pick_ = -1;
    };

    // Mutex type handed to allocator_storage<Policy, Mutex>
    class SimMutex
    {
    public:
        SimMutex() noexcept;
        void lock();
        void unlock() noexcept;
        bool try_lock();
        int  owner() const noexcept
        {
            return owner_;
        }
        static unsigned long locks_taken();  // since reset_counters()
        static void          reset_counters();
        static bool          held_by_current(); // does the current task hold any SimMutex?

    private:
        int owner_ = -1;
    };

    inline void sim_yield(const char* site)
    {
        if (Sched::get().active())
            Sched::get().yield(site);
    }

    // std::mutex objects that live in [lo, hi) are played by one SimMutex from now on (pthread_mutex_lock /
    // pthread_mutex_unlock as called from this program's own object files are wrapped); (nullptr, nullptr): none
    void simulate_std_mutexes_in(const void* lo, const void* hi);
} // namespace ss
