// A user object with static storage duration whose destructor uses a temporary_allocator (C14: "a program's
// exit"). It is defined after the header was included, so the header's per-translation-unit nifty counter
// outlives it whatever the link order; this file is linked BEFORE the library's translation units, the order in
// which a library-side counter alone would be gone first.
#include <cstring>
#include <new>

#include <foonathan/memory/temporary_allocator.hpp>

namespace ss
{
    bool     g_static_user_enabled = false;
    unsigned g_static_user_ran     = 0;

    namespace
    {
        struct StaticUser
        {
            ~StaticUser()
            {
#if FOONATHAN_MEMORY_TEMPORARY_STACK_MODE >= 2
                if (!g_static_user_enabled)
                    return;
                try
                {
                foonathan::memory::temporary_allocator a;
                auto                                   p = a.allocate(200, 8);
                std::memset(p, 0x5a, 200);
                // make the stack grow too: more than its current block can hold, inside the announced next one
                auto next = a.get_stack().next_capacity();
                if (next > 512)
                {
                    auto q = a.allocate(next - 128, 16);
                    std::memset(q, 0x5b, next - 128);
                }
                ++g_static_user_ran;
                }
                catch (const std::bad_alloc&)
                {
                    // an injected upstream failure may arrive here as well
                }
#endif
            }
        } g_static_user;
    } // namespace
} // namespace ss
