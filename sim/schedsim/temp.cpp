// schedsim "temp" mode (C14): temporary_allocator / temporary_stack_initializer / thread exit / process exit
// under the seeded scheduler. One forked child per run: the property is about process-global state and real
// exit, a fresh process is the only honest initial state. Task 0 is the child's real main thread.
#include "modes.hpp"
#include "../kernel/shadow.hpp"

#include <cstdarg>
#include <cstdio>
#include <cstdlib>
#include <cstring>
#include <map>
#include <memory>
#include <set>
#include <sys/wait.h>
#include <unistd.h>

#include <foonathan/memory/debugging.hpp>
#include <foonathan/memory/error.hpp>
#include <foonathan/memory/temporary_allocator.hpp>

using namespace sim;
namespace fm = foonathan::memory;

// the guarded hook of src/temporary_allocator.cpp (H1)
static bool g_trace = std::getenv("VERIF_TRACE") != nullptr;
namespace ss
{
    void note_site(const char* site) noexcept;
}
extern "C" void foonathan_memory_verif_yield(const char* site) noexcept
{
    if (g_trace)
        std::fprintf(stderr, "  [t%d] %s\n", ss::Sched::current_task(), site);
    ss::note_site(site);
    ss::sim_yield(site);
}

namespace ss
{
    namespace
    {
        int           g_report_fd  = -1; // child: where results go
        unsigned long g_leak_calls = 0;
        long          g_leak_amount = 0;

        void report(const char* fmt, ...)
        {
            if (g_report_fd < 0)
                return;
            char    buf[1200];
            va_list ap;
            va_start(ap, fmt);
            int n = std::vsnprintf(buf, sizeof buf, fmt, ap);
            va_end(ap);
            if (n > 0)
            {
                ssize_t r = write(g_report_fd, buf, std::size_t(n) < sizeof buf ? std::size_t(n) : sizeof buf - 1);
                (void)r;
            }
        }

    } // namespace
    extern bool     g_static_user_enabled; // static_user.cpp
    extern unsigned g_static_user_ran;
    namespace
    {
        // constructed before, destroyed after every static of the library: sees the final upstream balance
        struct ExitAccounting
        {
            ~ExitAccounting()
            {
                if (g_report_fd < 0)
                    return;
                report("EXIT live=%zu leak_calls=%lu leak_amount=%ld su=%u\n",
                       SimHeap::get().live_count(OWNER_MALLOC), g_leak_calls, g_leak_amount, g_static_user_ran);
            }
        };
        ExitAccounting g_exit_accounting __attribute__((init_priority(101)));

        using Marker = fm::memory_stack_raii_unwind<fm::temporary_stack>::marker_type;
        Marker marker_of(fm::temporary_stack& s)
        {
            // the existing friend seam: memory_stack_raii_unwind<temporary_stack> may call the private top()
            fm::memory_stack_raii_unwind<fm::temporary_stack> u(s);
            auto                                              m = u.get_marker();
            u.release();
            return m;
        }

        struct Model
        {
            // which stack the API handed to which live task (cleared at the task's release events)
            std::map<int, const void*> holds;
            std::set<const void*>      seen;  // every stack address ever returned
            std::set<const void*>      freed; // released by its holder and not handed out since
            Shadow                     shadow;
            std::map<int, const void*> pending_free;
            // scheduler task id -> the stack it is emptying right now (between the hook sites temp.clear.shrink and
            // temp.clear.mark_free): nobody else may be handed that stack in this window
            std::map<int, const void*> clearing;
            std::map<int, int>         sched_id, worker_of; // plan worker number <-> scheduler task id
            // acquiring calls in flight: while two overlap, "a stack was free during the whole call" cannot be
            // decided from outside (the other call may be half way through adopting it)
            int  acquiring = 0;
            bool overlapped = false;
            void begin_acquire()
            {
                if (acquiring++ > 0)
                    overlapped = true;
            }
            bool end_acquire() // true if this call ran alone
            {
                bool alone = !overlapped;
                if (--acquiring == 0)
                    overlapped = false;
                return alone;
            }
            std::string                problem_cls, problem;
            void                       fail(const char* cls, const std::string& what)
            {
                if (problem.empty())
                {
                    problem_cls = cls;
                    problem     = what;
                }
            }
        };
        Model* g_model = nullptr;
    } // namespace
    void note_site(const char* site) noexcept
    {
        if (!g_model || !site)
            return;
        int id = Sched::current_task();
        if (id < 0)
            return;
        auto& m = *g_model;
        if (!std::strcmp(site, "temp.clear.shrink"))
        {
            // which stack: the one this task is giving back (or still holds)
            int w = m.worker_of.count(id) ? m.worker_of[id] : id;
            const void* st = nullptr;
            if (m.pending_free.count(w))
                st = m.pending_free[w];
            else if (m.holds.count(w))
                st = m.holds[w];
            if (st)
                m.clearing[id] = st;
        }
        else if (!std::strcmp(site, "temp.clear.mark_free"))
            m.clearing.erase(id);
    }
    namespace
    {

        // called whenever the API returned stack `s` to task `t`; free_before: model's free set before the call
        void handed(int t, fm::temporary_stack& s, const std::set<const void*>& free_before, const char* via,
                    bool alone)
        {
            auto& m = *g_model;
            auto  p = static_cast<const void*>(&s);
            if (g_trace)
                std::fprintf(stderr, "HANDED w%d %p via %s (new=%d alone=%d acquiring=%d)\n", t, p, via, int(!m.seen.count(p)), int(alone), m.acquiring);
            for (auto& kv : m.clearing)
                if (kv.second == p && (!m.sched_id.count(t) || m.sched_id[t] != kv.first))
                    m.fail("shared_stack", std::string(via) + ": task " + std::to_string(t)
                                               + " was handed a temporary stack while its previous user was still "
                                                 "emptying it (shrink_to_fit in clear())");
            for (auto& kv : m.holds)
                if (kv.first != t && kv.second == p)
                    m.fail("shared_stack", std::string(via) + ": task " + std::to_string(t)
                                               + " was handed the temporary stack that live task "
                                               + std::to_string(kv.first) + " is using");
            // a thread keeps its stack until it gives it back (initializer destroyed / thread exit), whatever
            // size a later initializer or get_temporary_stack() asks for
            if (m.holds.count(t) && m.holds[t] != p)
                m.fail("stack_replaced", std::string(via) + ": task " + std::to_string(t)
                                             + " already had a temporary stack and was handed a different one "
                                               "(the first one stays marked as in use and is never reused)");
            stats().hit(m.seen.count(p) ? (m.freed.count(p) ? "reach.stack_of_finished_user_adopted" :
                                                              "reach.stack_handed_again") :
                                          "reach.stack_created");
            if (!alone)
                stats().hit("reach.acquiring_calls_overlapped");
            if (!m.seen.count(p))
            {
                // a brand new stack although one was free during the whole call?
                // (mode 1 keeps the stack in thread-local storage: nothing to reuse)
                if (FOONATHAN_MEMORY_TEMPORARY_STACK_MODE >= 2 && alone)
                for (auto f : free_before)
                    if (m.freed.count(f))
                    {
                        m.fail("stack_not_reused", std::string(via) + ": task " + std::to_string(t)
                                                       + " got a new temporary stack although the stack of a "
                                                         "finished user was free the whole time");
                        break;
                    }
                m.seen.insert(p);
            }
            m.freed.erase(p);
            m.holds[t] = p;
        }

        // release in two phases: the task stops counting as a user when it starts giving the stack back
        // (exclusivity oracle), the stack counts as free when that has completed (reuse oracle)
        void releasing(int t)
        {
            auto& m  = *g_model;
            auto  it = m.holds.find(t);
            if (it == m.holds.end())
                return;
            if (g_trace)
                std::fprintf(stderr, "RELEASING w%d %p\n", t, it->second);
            m.pending_free[t] = it->second;
            m.holds.erase(it);
        }
        void released(int t)
        {
            releasing(t);
            auto& m  = *g_model;
            auto  it = m.pending_free.find(t);
            if (it == m.pending_free.end())
                return;
            if (g_trace)
                std::fprintf(stderr, "RELEASED w%d %p\n", t, it->second);
            // (unless somebody was handed it in between)
            bool taken = false;
            for (auto& kv : m.holds)
                taken = taken || kv.second == it->second;
            for (auto& kv : m.pending_free) // ... and is giving it back itself right now
                taken = taken || (kv.first != t && kv.second == it->second);
            if (!taken)
                m.freed.insert(it->second);
            m.pending_free.erase(it);
            if (m.sched_id.count(t))
                m.clearing.erase(m.sched_id[t]);
        }

        struct UserOom : std::bad_alloc
        {
        };

        struct Scope
        {
            std::unique_ptr<fm::temporary_allocator> alloc;
            Marker                                   before; // (no default constructor)
            fm::temporary_stack*                     stack;
            std::uint64_t                            water;
            Scope(Marker m, fm::temporary_stack* s, std::uint64_t w) : before(m), stack(s), water(w) {}
        };

        void task_ops(int t, const std::vector<Op>& ops, const Plan& plan,
                      std::map<int, std::vector<Op>>& all, RunHash& hash)
        {
            auto&                                             m = *g_model;
            std::vector<Scope>                                scopes;
            std::unique_ptr<fm::temporary_stack_initializer>  init;
            std::set<int>                                     started;
#if FOONATHAN_MEMORY_TEMPORARY_STACK_MODE == 1
            // explicit lifetime management: the thread holds an initializer for its whole body
            // (a creation that fails for lack of memory is tried once more: the injected failure is over, the thread
            //  must get a properly built stack then)
            for (int attempt = 0; attempt < 2 && !init; ++attempt)
                try
                {
                    init.reset(new fm::temporary_stack_initializer(256));
                }
                catch (const std::bad_alloc&)
                {
                    stats().hit("reach.temp_initializer_failed_and_retried");
                }
            if (!init)
                return; // no stack, nothing this thread may do
#endif
            auto pop = [&]
            {
                auto sc = std::move(scopes.back());
                scopes.pop_back();
                // allocations of this scope end here
                m.shadow.for_each(
                    [&](Alloc& a)
                    {
                        if (a.obj == t)
                            m.shadow.check(a, "C14", "before the end of a temporary_allocator scope");
                    });
                m.shadow.drop_if([&](const Alloc& a) { return a.obj == t && a.id > sc.water; });
                auto* st = sc.stack;
                sc.alloc.reset();
                auto after = marker_of(*st);
                if (!(after == sc.before))
                    m.fail("scope_marker", "task " + std::to_string(t)
                                               + ": the temporary stack is not at the position it had when the "
                                                 "temporary_allocator was constructed");
                m.shadow.for_each(
                    [&](Alloc& a)
                    {
                        if (a.obj == t)
                            m.shadow.check(a, "C14", "after an inner temporary_allocator ended");
                    });
            };
            for (auto& o : ops)
            {
                if (!m.problem.empty())
                    break;
                try
                {
                    if (o.kind == "start")
                    {
                        int w = int(o.arg(0));
                        if (started.count(w) || !all.count(w) || w <= 0)
                            continue;
                        started.insert(w);
                        int id = Sched::get().spawn([w, &all, &plan, &hash] { task_ops(w, all[w], plan, all, hash); });
                        m.sched_id[w]   = id;
                        m.worker_of[id] = w;
                    }
                    else if (o.kind == "join")
                    {
                        if (!started.count(int(o.arg(0))))
                            continue; // (a shrunk plan may have lost the start)
                        started.erase(int(o.arg(0)));
                        Sched::get().join(m.sched_id[int(o.arg(0))]);
                        released(int(o.arg(0))); // the thread is gone, thread-local destructors included
                    }
                    else if (o.kind == "push")
                    {
                        if (scopes.size() >= 3)
                            continue;
                        auto fb = m.freed;
                        // marker before construction: of the stack this thread will use
                        m.begin_acquire();
                        auto& st    = fm::get_temporary_stack(256);
                        bool  alone = m.end_acquire();
                        handed(t, st, fb, "get_temporary_stack", alone);
                        Scope sc(marker_of(st), &st, m.shadow.last_id());
                        sc.alloc.reset(new fm::temporary_allocator());
                        if (&sc.alloc->get_stack() != &st)
                            m.fail("shared_stack", "temporary_allocator() uses another stack than "
                                                   "get_temporary_stack() returned to the same thread");
                        scopes.push_back(std::move(sc));
                    }
                    else if (o.kind == "alloc")
                    {
                        if (scopes.empty())
                            continue;
                        auto  size = 1 + std::size_t(o.arg(0)) % 600;
                        auto  al   = std::size_t(1) << (std::size_t(o.arg(1)) % 7);
                        void* p    = scopes.back().alloc->allocate(size, al);
                        auto& a    = m.shadow.add("C14,C01", p, size, al, t, 0, 0, true);
                        m.shadow.fill(a);
                        hash.add(SimHeap::get().off(p));
                    }
                    else if (o.kind == "pop")
                    {
                        if (!scopes.empty())
                            pop();
                    }
                    else if (o.kind == "shrink")
                    {
                        if (!scopes.empty())
                            scopes.back().alloc->shrink_to_fit();
                    }
                    else if (o.kind == "get")
                    {
                        auto  fb = m.freed;
                        m.begin_acquire();
                        auto& st    = fm::get_temporary_stack(128 + std::size_t(o.arg(0)));
                        bool  alone = m.end_acquire();
                        handed(t, st, fb, "get_temporary_stack", alone);
                    }
#if FOONATHAN_MEMORY_TEMPORARY_STACK_MODE >= 2
                    else if (o.kind == "init")
                    {
                        if (!init)
                        {
                            auto fb = m.freed;
                            m.begin_acquire();
                            try
                            {
                                // (sometimes far more than the default stack size)
                                auto want = o.arg(1) == 6 ? 20000 + 100 * std::size_t(o.arg(0)) :
                                                            64 + std::size_t(o.arg(0));
                                if (o.arg(1) == 6)
                                    stats().hit("reach.initializer_asks_for_more_than_default");
                                init.reset(new fm::temporary_stack_initializer(want));
                            }
                            catch (...)
                            {
                                m.end_acquire();
                                throw;
                            }
                            // the initializer made sure this thread has a stack: that is the one it uses now
                            auto& mine  = fm::get_temporary_stack(64); // (a scheduling point: still acquiring)
                            bool  alone = m.end_acquire();
                            handed(t, mine, fb, "temporary_stack_initializer", alone);
                            stats().hit("reach.initializer_created");
                        }
                    }
                    else if (o.kind == "uninit")
                    {
                        // only with no temporary_allocator active in this thread ("stack should be empty now")
                        if (init && scopes.empty())
                        {
                            releasing(t);
                            init.reset();
                            released(t);
                        }
                    }
#endif
                }
                catch (const Violation& v)
                {
                    m.fail(v.cls.c_str(), v.facts);
                }
                catch (const std::bad_alloc&)
                {
                    stats().hit("reach.temp_alloc_failed");
                }
            }
            while (!scopes.empty())
            {
                try
                {
                    pop();
                }
                catch (const Violation& v)
                {
                    m.fail(v.cls.c_str(), v.facts);
                    scopes.pop_back();
                }
            }
#if FOONATHAN_MEMORY_TEMPORARY_STACK_MODE >= 2
            if (init)
            {
                releasing(t);
                init.reset();
                released(t);
            }
            releasing(t); // the thread is about to exit: thread-local destructors give the stack back
#else
            init.reset();
#endif
            (void)plan;
        }

        [[noreturn]] void child(const Plan& plan, int fd)
        {
            g_report_fd = fd;
            stats().c.clear(); // from here on: this child's own probes, sent to the parent with the result
            g_static_user_enabled = plan.num("exit_user", 0) != 0;
            fm::set_leak_handler(
                [](const fm::allocator_info&, std::ptrdiff_t amount)
                {
                    ++g_leak_calls;
                    g_leak_amount = amount;
                });
            if (plan.num("user_oom", 0))
                // a user's out_of_memory handler that reports the failure with its own exception type
                fm::out_of_memory::set_handler([](const fm::allocator_info&, std::size_t) { throw UserOom(); });
            static Model model;
            g_model = &model;
            model.shadow.reset();
            auto& sched = Sched::get();
            sched.reset((std::uint64_t)plan.num("sseed", 1), unsigned(plan.num("budget", 4000)));
            // thread-local destructors have run by then
            sched.on_task_gone = [](int id) { released(g_model->worker_of.count(id) ? g_model->worker_of[id] : id); };
            auto& heap = SimHeap::get();
            heap.reset(0, false, false, (std::uint64_t)plan.num("hseed", 1));
            heap.begin_op(int(plan.num("malloc_fail", 0))); // armed for the whole run, exit included
            static std::map<int, std::vector<Op>> all;
            for (auto& o : plan.ops)
                all[o.task].push_back(o);
            RunHash hash;
            sched.run_with_main([&] { task_ops(0, all[0], plan, all, hash); });
            released(0);
            hash.add(sched.schedule_hash());
            if (sched.deadlock || sched.budget_exhausted)
            {
                report("RES V %s | %s\n", sched.deadlock ? "deadlock" : "livelock",
                       sched.deadlock ? "unfinished tasks and none runnable" : "step budget exhausted");
                _exit(3); // parked threads: no orderly exit possible
            }
            auto pending = heap.take_pending();
            if (model.problem.empty() && !sched.problem.empty())
                model.fail("mutex_protocol", sched.problem);
            if (model.problem.empty() && !pending.empty() && pending.compare(0, 8, "HARNESS:") != 0)
                model.fail("upstream_protocol", pending);
            if (!model.problem.empty())
                report("RES V %s | %s\n", model.problem_cls.c_str(), model.problem.c_str());
            else
                report("RES OK %016llx %u %u %d\n", (unsigned long long)hash.h, sched.steps, sched.preemptions,
                       heap.fault_fired() ? 1 : 0);
            for (auto& kv : stats().c)
                report("ST %s %llu\n", kv.first.c_str(), (unsigned long long)kv.second);
            // leave the way a program does: thread-local destructors of main, then static destructors
            std::exit(0);
        }
    } // namespace

    void run_temp(const Plan& plan, RunResult& res, RunHash& hash)
    {
        int fds[2];
        if (pipe(fds) != 0)
        {
            res.skip = "pipe failed";
            return;
        }
        std::fflush(stdout);
        std::fflush(stderr);
        pid_t pid = fork();
        if (pid < 0)
        {
            res.skip = "fork failed";
            return;
        }
        if (pid == 0)
        {
            close(fds[0]);
            child(plan, fds[1]);
        }
        close(fds[1]);
        std::string out;
        char        buf[512];
        ssize_t     n;
        while ((n = read(fds[0], buf, sizeof buf)) > 0)
            out.append(buf, std::size_t(n));
        close(fds[0]);
        int status = 0;
        waitpid(pid, &status, 0);
        auto bad = [&](const std::string& cls, const std::string& facts)
        {
            res.violated = true;
            // (blocks of the temporary block source that are never given back are C05's business as well)
            res.v.prop   = cls == "exit_leak" ? "C14,C05" : "C14";
            res.v.cls    = cls;
            res.v.facts  = facts;
        };
        auto line_of = [&](const char* tag) -> std::string
        {
            auto p = out.find(tag);
            if (p == std::string::npos)
                return "";
            auto e = out.find('\n', p);
            return out.substr(p, e == std::string::npos ? std::string::npos : e - p);
        };
        auto resl = line_of("RES ");
        auto exl  = line_of("EXIT ");
        for (std::size_t pos = 0; (pos = out.find("ST ", pos)) != std::string::npos; ++pos)
        {
            if (pos && out[pos - 1] != '\n')
                continue;
            char               name[120];
            unsigned long long n = 0;
            if (std::sscanf(out.c_str() + pos, "ST %119s %llu", name, &n) == 2)
                stats().hit(name, n);
        }
        if (resl.compare(0, 6, "RES V ") == 0)
        {
            auto rest = resl.substr(6);
            auto bar  = rest.find(" | ");
            bad(rest.substr(0, bar), bar == std::string::npos ? "" : rest.substr(bar + 3));
            return;
        }
        if (!WIFEXITED(status) || WEXITSTATUS(status) != 0 || resl.empty())
        {
            char b[160];
            if (WIFSIGNALED(status))
                std::snprintf(b, sizeof b, "the child process died with signal %d %s", WTERMSIG(status),
                              resl.empty() ? "during the run" : "during exit (after the run had finished)");
            else
                std::snprintf(b, sizeof b, "the child process ended with status %d %s", WEXITSTATUS(status),
                              resl.empty() ? "during the run" : "during exit (after the run had finished)");
            bad(resl.empty() ? "child_crash_run" : "child_crash_exit", b);
            return;
        }
        unsigned long long h = 0;
        unsigned           steps = 0, pre = 0;
        int                fired = 0;
        std::sscanf(resl.c_str(), "RES OK %llx %u %u %d", &h, &steps, &pre, &fired);
        hash.add(h);
        stats().hit("reach.scheduling_decisions", steps);
        stats().hit("reach.preemptions", pre);
        if (fired)
            stats().hit("fault.malloc_failure_fired");
        res.nontrivial = pre >= 1;
        std::size_t   live = 0;
        unsigned long lc   = 0;
        long          la   = 0;
        if (exl.empty() || std::sscanf(exl.c_str(), "EXIT live=%zu leak_calls=%lu leak_amount=%ld", &live, &lc, &la) < 2)
        {
            bad("child_crash_exit", "the child did not reach the end of static destruction");
            return;
        }
        unsigned su = 0;
        if (auto sp = std::strstr(exl.c_str(), "su="))
            su = unsigned(std::atoi(sp + 3));
        if (su)
            stats().hit("reach.static_object_used_temporary_allocator_at_exit");
        if (live != 0 || lc != 0)
        {
            char b[200];
            std::snprintf(b, sizeof b, "at process exit %zu block(s) obtained through malloc are still allocated; "
                                       "the library's leak handler was called %lu time(s) (last amount %ld)",
                          live, lc, la);
            bad("exit_leak", b);
        }
    }
} // namespace ss
