// schedsim "ts" mode (C13): thread_safe_allocator / allocator_storage<Policy, SimMutex> shared by 2-4 tasks.
#include "modes.hpp"
#include "../kernel/shadow.hpp"
#include "../kernel/simalloc.hpp"

#include <foonathan/memory/allocator_storage.hpp>
#include <foonathan/memory/memory_pool.hpp>
#include <foonathan/memory/new_allocator.hpp>
#include <foonathan/memory/virtual_memory.hpp>
#include <foonathan/memory/debugging.hpp>
#include <foonathan/memory/detail/lowlevel_allocator.hpp>

#include <new>
#include <system_error>

#include <foonathan/memory/fallback_allocator.hpp>
#include <foonathan/memory/tracking.hpp>

using namespace sim;
namespace fm = foonathan::memory;

namespace ss
{
    namespace
    {
        struct ProbeState
        {
            int           occupancy = 0;
            unsigned long calls     = 0;
            bool          need_lock = true;
            int           fail_in   = 0; // the throwing allocation functions fail (throw) at this call, counted down
            unsigned      failed    = 0;
            int           fail_again = 0;
        };

        // Stateful allocator that knows when two tasks are inside it at once and whether the mutex is held.
        class Probe
        {
        public:
            using is_stateful = std::true_type;
            explicit Probe(ProbeState* s = nullptr) noexcept : s_(s) {}

            void* allocate_node(std::size_t size, std::size_t)
            {
                In in(*s_, "allocate_node");
                may_fail();
                return ::operator new(size);
            }
            void* allocate_array(std::size_t count, std::size_t size, std::size_t)
            {
                In in(*s_, "allocate_array");
                may_fail();
                return ::operator new(count * size);
            }
            // the wrapped allocator runs out of memory at a drawn call: the exception leaves through the wrapper,
            // which must not keep the mutex
            void may_fail()
            {
                if (s_->fail_in > 0 && --s_->fail_in == 0)
                {
                    ++s_->failed;
                    s_->fail_in = s_->fail_again;
                    throw std::bad_alloc();
                }
            }
            void deallocate_node(void* p, std::size_t, std::size_t) noexcept
            {
                In in(*s_, "deallocate_node");
                ::operator delete(p);
            }
            void deallocate_array(void* p, std::size_t, std::size_t, std::size_t) noexcept
            {
                In in(*s_, "deallocate_array");
                ::operator delete(p);
            }
            void* try_allocate_node(std::size_t size, std::size_t) noexcept
            {
                In in(*s_, "try_allocate_node");
                return ::operator new(size);
            }
            void* try_allocate_array(std::size_t count, std::size_t size, std::size_t) noexcept
            {
                In in(*s_, "try_allocate_array");
                return ::operator new(count * size);
            }
            bool try_deallocate_node(void* p, std::size_t, std::size_t) noexcept
            {
                In in(*s_, "try_deallocate_node");
                ::operator delete(p);
                return true;
            }
            bool try_deallocate_array(void* p, std::size_t, std::size_t, std::size_t) noexcept
            {
                In in(*s_, "try_deallocate_array");
                ::operator delete(p);
                return true;
            }
            std::size_t max_node_size() const
            {
                In in(*s_, "max_node_size");
                return 1u << 20;
            }
            std::size_t max_array_size() const
            {
                In in(*s_, "max_array_size");
                return 1u << 20;
            }
            std::size_t max_alignment() const
            {
                In in(*s_, "max_alignment");
                return 64;
            }

        private:
            struct In
            {
                ProbeState& s;
                In(ProbeState& st, const char* member) : s(st)
                {
                    ++s.calls;
                    if (s.need_lock && !SimMutex::held_by_current())
                        Sched::get().fail(std::string("unlocked_access: ") + member
                                          + " of the wrapped allocator ran without the mutex held");
                    if (s.occupancy++ != 0)
                        Sched::get().fail(std::string("overlap: ") + member
                                          + " entered while another task was inside the wrapped allocator");
                    sim_yield("probe.enter"); // descheduled INSIDE the wrapped allocator
                }
                ~In()
                {
                    sim_yield("probe.exit");
                    --s.occupancy;
                }
            };
            ProbeState* s_;
        };

        // an empty class that nevertheless declares itself stateful (its state lives outside the object, e.g. a
        // global arena): it needs the lock like any other stateful allocator
        struct EmptyStatefulProbe
        {
            using is_stateful = std::true_type;
            static ProbeState*& state()
            {
                static ProbeState* s = nullptr;
                return s;
            }
            struct In
            {
                In(const char* member)
                {
                    auto& s = *state();
                    ++s.calls;
                    if (!SimMutex::held_by_current())
                        Sched::get().fail(std::string("unlocked_access: ") + member
                                          + " of an empty but stateful wrapped allocator ran without the mutex "
                                            "held");
                    if (s.occupancy++ != 0)
                        Sched::get().fail(std::string("overlap: ") + member
                                          + " entered while another task was inside the wrapped allocator");
                    sim_yield("probe.enter");
                }
                ~In()
                {
                    sim_yield("probe.exit");
                    --state()->occupancy;
                }
            };
            void* allocate_node(std::size_t size, std::size_t)
            {
                In in("allocate_node");
                return ::operator new(size);
            }
            void deallocate_node(void* p, std::size_t, std::size_t) noexcept
            {
                In in("deallocate_node");
                ::operator delete(p);
            }
            std::size_t max_node_size() const
            {
                In in("max_node_size");
                return 1u << 20;
            }
        };

        // stateless: no lock may be taken, concurrent entry is fine by definition
        struct StatelessProbe
        {
            using is_stateful = std::false_type;
            static unsigned long& calls()
            {
                static unsigned long c = 0;
                return c;
            }
            void* allocate_node(std::size_t size, std::size_t)
            {
                ++calls();
                sim_yield("probe.enter");
                return ::operator new(size);
            }
            void deallocate_node(void* p, std::size_t, std::size_t) noexcept
            {
                ++calls();
                sim_yield("probe.enter");
                ::operator delete(p);
            }
        };

        // a tracker with state: wrapped around a stateless allocator the pair is stateful, its callbacks need the lock
        struct TsTracker
        {
            ProbeState* st = nullptr;
            struct In
            {
                ProbeState& s;
                In(ProbeState& st_, const char* member) : s(st_)
                {
                    ++s.calls;
                    if (!SimMutex::held_by_current())
                        Sched::get().fail(std::string("unlocked_access: tracker callback ") + member
                                          + " of a tracked stateless allocator ran without the mutex held");
                    if (s.occupancy++ != 0)
                        Sched::get().fail(std::string("overlap: tracker callback ") + member
                                          + " entered while another task was inside the tracker");
                    sim_yield("tracker.enter");
                }
                ~In()
                {
                    sim_yield("tracker.exit");
                    --s.occupancy;
                }
            };
            void on_node_allocation(void*, std::size_t, std::size_t) noexcept
            {
                In in(*st, "on_node_allocation");
            }
            void on_array_allocation(void*, std::size_t, std::size_t, std::size_t) noexcept
            {
                In in(*st, "on_array_allocation");
            }
            void on_node_deallocation(void*, std::size_t, std::size_t) noexcept
            {
                In in(*st, "on_node_deallocation");
            }
            void on_array_deallocation(void*, std::size_t, std::size_t, std::size_t) noexcept
            {
                In in(*st, "on_array_deallocation");
            }
        };

        // an empty class that is a real mutex (it forwards to a process-wide one)
        struct EmptyMutex
        {
            static SimMutex& global()
            {
                static SimMutex m;
                return m;
            }
            void lock()
            {
                global().lock();
            }
            void unlock() noexcept
            {
                global().unlock();
            }
        };

        // a mutex whose lock() fails (throws) at a drawn call
        struct ThrowingMutex
        {
            static long& countdown()
            {
                static long c = 0;
                return c;
            }
            static unsigned& thrown()
            {
                static unsigned t = 0;
                return t;
            }
            // (only calls the harness marks may fail: deallocation functions are noexcept, a throwing lock() there
            //  ends the program by definition)
            static bool& may_fail()
            {
                thread_local bool f = false;
                return f;
            }
            SimMutex m;
            void     lock()
            {
                if (may_fail() && countdown() > 0 && --countdown() == 0)
                {
                    ++thrown();
                    throw std::system_error(std::make_error_code(std::errc::resource_unavailable_try_again));
                }
                m.lock();
            }
            void unlock() noexcept
            {
                m.unlock();
            }
        };

        // stateless and composable: says no to every other request, so that the (stateful) fallback is used
        struct StatelessComposableProbe
        {
            using is_stateful = std::false_type;
            static unsigned long& n()
            {
                static unsigned long c = 0;
                return c;
            }
            void* allocate_node(std::size_t size, std::size_t)
            {
                return ::operator new(size + 16) /* never used: the composable path is */;
            }
            void deallocate_node(void* p, std::size_t, std::size_t) noexcept
            {
                ::operator delete(p);
            }
            void* try_allocate_node(std::size_t, std::size_t) noexcept
            {
                ++n();
                return nullptr; // always full
            }
            bool try_deallocate_node(void*, std::size_t, std::size_t) noexcept
            {
                return false; // owns nothing
            }
            std::size_t max_node_size() const
            {
                return 1u << 20;
            }
        };

        struct TaskAlloc
        {
            void*       p;
            bool        array;
            std::size_t count, size;
            int         fam;
        };

        using Pool = fm::memory_pool<fm::node_pool, fm::growing_block_allocator<sim::sim_lifo_allocator>>;

        // a low-level allocator of the library's own making (lowlevel_allocator<Functor>: stateless, process-wide
        // leak counter) on the simulated upstream; its counter is this harness's own instantiation, so its net
        // can be asked for without ending the process
        struct SimLL
        {
            static fm::allocator_info info() noexcept
            {
                return {"verif::sim_lowlevel_allocator", nullptr};
            }
            static void* allocate(std::size_t size, std::size_t) noexcept
            {
                return SimHeap::get().request(60, size, 16);
            }
            static void deallocate(void* p, std::size_t size, std::size_t) noexcept
            {
                SimHeap::get().release(60, p, size, 0, false);
            }
            static std::size_t max_node_size() noexcept
            {
                return std::size_t(-1);
            }
        };
        using SimLowLevel = fm::detail::lowlevel_allocator<SimLL>;
        using SimLLCounter =
            fm::detail::global_leak_checker_impl<fm::detail::lowlevel_allocator_leak_handler<SimLL>>;

        long g_leak_reports = 0;
        long g_leak_amount  = 0;
        unsigned g_new_handler_calls = 0;

        template <class Storage>
        void task_body(Storage& a, const std::vector<Op>& ops, bool composable, RunHash* hash)
        {
            std::vector<TaskAlloc> mine;
            auto free_one = [&](std::size_t i)
            {
                auto t = mine[i];
                mine.erase(mine.begin() + (long)i);
                if (t.fam == 1)
                {
                    bool ok = t.array ? a.try_deallocate_array(t.p, t.count, t.size, 8) :
                                        a.try_deallocate_node(t.p, t.size, 8);
                    if (!ok)
                        Sched::get().fail("try_deallocate refused own memory");
                }
                else if (t.array)
                    a.deallocate_array(t.p, t.count, t.size, 8);
                else
                    a.deallocate_node(t.p, t.size, 8);
            };
            for (auto& o : ops)
            {
                if (o.kind == "n" || o.kind == "a")
                {
                    TaskAlloc t;
                    t.array = o.kind == "a";
                    t.count = t.array ? 1 + std::size_t(o.arg(0)) % 6 : 1;
                    t.size  = 8 + std::size_t(o.arg(1)) % 100;
                    t.fam   = composable && o.arg(2) % 2 ? 1 : 0;
                    if (t.fam == 1)
                        t.p = t.array ? a.try_allocate_array(t.count, t.size, 8) :
                                        a.try_allocate_node(t.size, 8);
                    else
                        try
                        {
                            t.p = t.array ? a.allocate_array(t.count, t.size, 8) : a.allocate_node(t.size, 8);
                        }
                        catch (const std::bad_alloc&)
                        {
                            t.p = nullptr; // the wrapped allocator had no memory (drawn)
                        }
                    if (t.p)
                        mine.push_back(t);
                }
                else if (o.kind == "f")
                {
                    if (!mine.empty())
                        free_one(std::size_t(o.arg(0)) % mine.size());
                }
                else if (o.kind == "mx")
                {
                    std::size_t v = o.arg(0) % 3 == 0 ? a.max_node_size() :
                                    o.arg(0) % 3 == 1 ? a.max_array_size() :
                                                        a.max_alignment();
                    (void)v;
                }
                else if (o.kind == "lk")
                {
                    if (o.arg(0) % 3 == 2)
                    {
                        // the proxy of a const storage object (the const overload of lock()): a size query through it
                        // runs with the mutex held like everything else, the mutex is free again afterwards
                        const auto& ca = a;
                        {
                            auto cproxy = ca.lock();
                            (void)cproxy->max_node_size();
                            sim_yield("proxy.held");
                            (void)(*cproxy).max_alignment();
                        }
                        continue;
                    }
                    // the lock() proxy: use it, move it, let the moved-to proxy release
                    auto proxy = a.lock();
                    void* p    = nullptr;
                    try
                    {
                        p = proxy->allocate_node(16, 8);
                    }
                    catch (const std::bad_alloc&)
                    {
                        continue; // (the proxy gives the mutex back on its way out)
                    }
                    sim_yield("proxy.held");
                    auto moved = std::move(proxy);
                    moved->deallocate_node(p, 16, 8);
                    if (o.arg(0) % 2)
                    {
                        try
                        {
                            void* q = (*moved).allocate_node(24, 8);
                            (*moved).deallocate_node(q, 24, 8);
                        }
                        catch (const std::bad_alloc&)
                        {
                        }
                    }
                }
            }
            while (!mine.empty())
                free_one(mine.size() - 1);
            (void)hash;
        }
    } // namespace

    void run_ts(const Plan& plan, RunResult& res, RunHash& hash)
    {
        auto& sched = Sched::get();
        sched.reset((std::uint64_t)plan.num("sseed", 1), unsigned(plan.num("budget", 5000)));
        SimMutex::reset_counters();
        int ntasks  = int(plan.num("tasks", 2));
        int variant = int(plan.num("variant", 0));
        std::vector<std::vector<Op>> per;
        per.resize(std::size_t(ntasks));
        for (auto& o : plan.ops)
            per[std::size_t(o.task) % per.size()].push_back(o);

        ProbeState st;
        Probe      probe(&st);
        StatelessProbe::calls() = 0;
        using Direct            = fm::allocator_storage<fm::direct_storage<Probe>, SimMutex>;
        using Ref               = fm::allocator_storage<fm::reference_storage<Probe>, SimMutex>;
        using Any               = fm::allocator_storage<fm::reference_storage<fm::any_allocator>, SimMutex>;
        using Stateless         = fm::allocator_storage<fm::direct_storage<StatelessProbe>, SimMutex>;
        using TsPool            = fm::allocator_storage<fm::direct_storage<Pool>, SimMutex>;
        std::unique_ptr<Direct>    direct;
        std::unique_ptr<Ref>       ref;
        std::unique_ptr<Any>       any;
        std::unique_ptr<Stateless> stateless;
        std::unique_ptr<TsPool>    tspool;
        auto&                      heap = SimHeap::get();
        heap.begin_op(0);
        using EmptyStateful = fm::allocator_storage<fm::direct_storage<EmptyStatefulProbe>, SimMutex>;
        std::unique_ptr<EmptyStateful> emptystateful;
        {
            int v = variant % 14;
            if (v == 0 || v == 1 || v == 2 || v == 12)
            {
                st.fail_in    = int(plan.num("probe_fail", 0));
                st.fail_again = int(plan.num("probe_fail_again", 0));
            }
        }
        switch (variant % 14)
        {
        case 5:
            EmptyStatefulProbe::state() = &st;
            emptystateful.reset(new EmptyStateful(EmptyStatefulProbe{}));
            for (int t = 0; t < ntasks; ++t)
                sched.spawn(
                    [&, t]
                    {
                        std::vector<void*> mine;
                        for (auto& o : per[std::size_t(t)])
                        {
                            if (o.kind == "n" || o.kind == "a" || o.kind == "lk")
                                mine.push_back(emptystateful->allocate_node(8 + std::size_t(o.arg(1)) % 100, 8));
                            else if (o.kind == "f" && !mine.empty())
                            {
                                emptystateful->deallocate_node(mine.back(), 0, 8);
                                mine.pop_back();
                            }
                            else if (o.kind == "mx")
                                (void)emptystateful->max_node_size();
                        }
                        for (auto p : mine)
                            emptystateful->deallocate_node(p, 0, 8);
                    });
            break;
        case 0:
            direct.reset(new Direct(Probe(&st)));
            for (int t = 0; t < ntasks; ++t)
                sched.spawn([&, t] { task_body(*direct, per[std::size_t(t)], true, &hash); });
            break;
        case 1:
            ref.reset(new Ref(probe));
            for (int t = 0; t < ntasks; ++t)
                sched.spawn([&, t] { task_body(*ref, per[std::size_t(t)], true, &hash); });
            break;
        case 2:
            any.reset(new Any(probe));
            for (int t = 0; t < ntasks; ++t)
                sched.spawn([&, t] { task_body(*any, per[std::size_t(t)], true, &hash); });
            break;
        case 3:
            st.need_lock = false;
            stateless.reset(new Stateless(StatelessProbe{}));
            for (int t = 0; t < ntasks; ++t)
                sched.spawn(
                    [&, t]
                    {
                        // only the node interface exists on the stateless probe
                        std::vector<void*> mine;
                        for (auto& o : per[std::size_t(t)])
                        {
                            if (o.kind == "n" || o.kind == "a")
                                mine.push_back(stateless->allocate_node(8 + std::size_t(o.arg(1)) % 100, 8));
                            else if (o.kind == "f" && !mine.empty())
                            {
                                stateless->deallocate_node(mine.back(), 0, 8);
                                mine.pop_back();
                            }
                        }
                        for (auto p : mine)
                            stateless->deallocate_node(p, 0, 8);
                    });
            break;
        case 12:
        {
            // the factory with the default mutex: make_thread_safe_allocator(alloc) -> std::mutex, which is played
            // by a SimMutex here (pthread_mutex_lock/unlock wrapped for mutexes inside this object)
            auto made  = fm::make_thread_safe_allocator(Probe(&st));
            using Made = decltype(made);
            static Made* obj = nullptr;
            obj              = new Made(std::move(made)); // (never destroyed: parked tasks may still refer to it)
            simulate_std_mutexes_in(obj, obj + 1);
            for (int t = 0; t < ntasks; ++t)
                sched.spawn([&, t] { task_body(*obj, per[std::size_t(t)], true, &hash); });
            break;
        }
        case 8:
        case 9:
        case 10:
        case 11:
        {
            // node-only use of four more wrappings; the probes inside judge (lock held, nobody else inside)
            using TrackedSL = fm::tracked_allocator<TsTracker, StatelessProbe>;
            using V8        = fm::allocator_storage<fm::direct_storage<TrackedSL>, SimMutex>;
            using V9        = fm::allocator_storage<fm::direct_storage<Probe>, EmptyMutex>;
            using Fb        = fm::fallback_allocator<StatelessComposableProbe, Probe>;
            using V10       = fm::allocator_storage<fm::direct_storage<Fb>, SimMutex>;
            using V11       = fm::allocator_storage<fm::direct_storage<Probe>, ThrowingMutex>;
            static std::unique_ptr<V8>  v8;
            static std::unique_ptr<V9>  v9;
            static std::unique_ptr<V10> v10;
            static std::unique_ptr<V11> v11;
            v8.reset();
            v9.reset();
            v10.reset();
            v11.reset();
            ThrowingMutex::countdown() = 0;
            ThrowingMutex::thrown()    = 0;
            int v = variant % 14;
            if (v == 8)
                v8.reset(new V8(TrackedSL(TsTracker{&st}, StatelessProbe{})));
            else if (v == 9)
                v9.reset(new V9(Probe(&st)));
            else if (v == 10)
                v10.reset(new V10(Fb(StatelessComposableProbe{}, Probe(&st))));
            else
            {
                v11.reset(new V11(Probe(&st)));
                ThrowingMutex::countdown() = plan.num("lock_fail", 0);
            }
            auto body = [&, v](auto& a, int t)
            {
                std::vector<std::pair<void*, std::size_t>> mine;
                for (auto& o : per[std::size_t(t)])
                {
                    try
                    {
                        if (o.kind == "n" || o.kind == "a" || o.kind == "lk")
                        {
                            auto size                 = 8 + std::size_t(o.arg(1)) % 100;
                            ThrowingMutex::may_fail() = true;
                            void* p                   = nullptr;
                            try
                            {
                                p = a.allocate_node(size, 8);
                            }
                            catch (...)
                            {
                                ThrowingMutex::may_fail() = false;
                                throw;
                            }
                            ThrowingMutex::may_fail() = false;
                            mine.push_back({p, size});
                        }
                        else if (o.kind == "f" && !mine.empty())
                        {
                            auto m = mine.back();
                            mine.pop_back();
                            a.deallocate_node(m.first, m.second, 8);
                        }
                        else if (o.kind == "mx")
                            (void)a.max_node_size();
                    }
                    catch (const std::system_error&)
                    {
                        // the mutex refused (variant 11): the operation did not happen
                        if (v != 11)
                            Sched::get().fail("mutex_protocol: a system_error escaped although no mutex throws");
                    }
                }
                // (what is left is released outside the scheduler's judgement: deallocate is noexcept and would
                //  terminate on a throwing lock)
                ThrowingMutex::countdown() = 0;
                for (auto& m : mine)
                    a.deallocate_node(m.first, m.second, 8);
            };
            for (int t = 0; t < ntasks; ++t)
                sched.spawn(
                    [&, t, v, body]
                    {
                        if (v == 8)
                            body(*v8, t);
                        else if (v == 9)
                            body(*v9, t);
                        else if (v == 10)
                            body(*v10, t);
                        else
                            body(*v11, t);
                    });
            break;
        }
        case 6:
        case 7:
        case 13:
        {
            // stateless low-level allocators used concurrently as they are: variant 6 the library's
            // lowlevel_allocator template (leak counter = an atomic every operation of which is a scheduling
            // point, hook H2), variant 7 new_allocator with an upstream that is exhausted at drawn points and a
            // std::new_handler that frees memory (get/set_new_handler are scheduling points)
            static Shadow shadow;
            shadow.reset();
            g_upstream_hook     = [](const char* site) { sim_yield(site); };
            g_new_handler_calls = 0;
            const bool use_new  = variant % 14 == 7;
            const bool use_vm   = variant % 14 == 13; // virtual_memory_allocator: mmap, mprotect, munmap are the points
            static fm::allocator_storage<fm::direct_storage<fm::virtual_memory_allocator>, SimMutex> ts_vm{
                fm::virtual_memory_allocator{}};
            static fm::allocator_storage<fm::direct_storage<SimLowLevel>, SimMutex>     ts_ll{SimLowLevel{}};
            static fm::allocator_storage<fm::direct_storage<fm::new_allocator>, SimMutex> ts_new{fm::new_allocator{}};
            if (use_new)
                std::set_new_handler(
                    []
                    {
                        ++g_new_handler_calls;
                        SimHeap::get().set_exhausted(false); // "frees memory": the retry will succeed
                    });
            for (int t = 0; t < ntasks; ++t)
                sched.spawn(
                    [&, t, use_new, use_vm]
                    {
                        struct Mine
                        {
                            char*       p;
                            std::size_t size;
                        };
                        std::vector<Mine> mine;
                        auto              release = [&](std::size_t i)
                        {
                            auto m = mine[i];
                            mine.erase(mine.begin() + (long)i);
                            shadow.check(*shadow.find(m.p), "C13,C01", "before release");
                            shadow.take(m.p);
                            if (use_vm)
                                ts_vm.deallocate_node(m.p, m.size, 8);
                            else if (use_new)
                                ts_new.deallocate_node(m.p, m.size, 8);
                            else
                                ts_ll.deallocate_node(m.p, m.size, 8);
                        };
                        try
                        {
                            for (auto& o : per[std::size_t(t)])
                            {
                                if (o.kind == "n" || o.kind == "a" || o.kind == "lk")
                                {
                                    auto size = use_vm ? 1 + std::size_t(o.arg(1)) * 97 % 9000 :
                                                         8 + std::size_t(o.arg(1)) % 100;
                                    if (use_new && o.kind == "lk")
                                        SimHeap::get().set_exhausted(true); // from now on until the handler ran
                                    void* p = nullptr;
                                    try
                                    {
                                        p = use_vm  ? ts_vm.allocate_node(size, 8) :
                                            use_new ? ts_new.allocate_node(size, 8) :
                                                      ts_ll.allocate_node(size, 8);
                                    }
                                    catch (const std::bad_alloc&)
                                    {
                                        Sched::get().fail("spurious_failure: a stateless low-level allocator "
                                                          "reported out of memory although "
                                                          + std::string(use_new ? "a new_handler that frees memory is "
                                                                                  "installed" :
                                                                                  "its upstream had memory"));
                                        continue;
                                    }
                                    auto& a = shadow.add("C13,C01", p, size, 8, t,
                                                         use_vm ? sim::OWNER_MMAP : use_new ? sim::OWNER_NEW : 60, 0, true);
                                    shadow.fill(a);
                                    mine.push_back({a.p, size});
                                }
                                else if (o.kind == "f" && !mine.empty())
                                    release(std::size_t(o.arg(0)) % mine.size());
                                else if (o.kind == "mx")
                                    (void)(use_vm ? ts_vm.max_node_size() : use_new ? ts_new.max_node_size() : ts_ll.max_node_size());
                            }
                            while (!mine.empty())
                                release(mine.size() - 1);
                        }
                        catch (const Violation& v)
                        {
                            Sched::get().fail("shadow: " + v.cls + " " + v.facts);
                        }
                    });
            break;
        }
        default:
        {
            // a real pool: keeps C01 under contention (shared shadow; upstream calls are scheduling points)
            tspool.reset(new TsPool(Pool(std::size_t(plan.num("node_size", 32)),
                                         std::size_t(plan.num("block_size", 256)), sim::sim_lifo_allocator(50))));
            static Shadow shadow;
            shadow.reset();
            g_upstream_hook = [](const char* site) { sim_yield(site); };
            for (int t = 0; t < ntasks; ++t)
                sched.spawn(
                    [&, t]
                    {
                        std::vector<char*> mine;
                        auto               ns = std::size_t(plan.num("node_size", 32));
                        try
                        {
                            for (auto& o : per[std::size_t(t)])
                            {
                                if (o.kind == "n" || o.kind == "a" || o.kind == "lk")
                                {
                                    void* p = tspool->allocate_node(ns, 8);
                                    auto& a = shadow.add("C13,C01", p, ns, 8, t, 50, 16, true);
                                    shadow.fill(a);
                                    mine.push_back(a.p);
                                }
                                else if (o.kind == "f" && !mine.empty())
                                {
                                    auto i = std::size_t(o.arg(0)) % mine.size();
                                    auto p = mine[i];
                                    mine.erase(mine.begin() + (long)i);
                                    shadow.check(*shadow.find(p), "C13,C01", "before release");
                                    shadow.take(p); // leaves the model before the call: another task may get it
                                    tspool->deallocate_node(p, ns, 8);
                                }
                                else if (o.kind == "mx")
                                    (void)tspool->max_node_size();
                            }
                            for (auto p : mine)
                            {
                                shadow.check(*shadow.find(p), "C13,C01", "before release");
                                shadow.take(p);
                                tspool->deallocate_node(p, ns, 8);
                            }
                        }
                        catch (const Violation& v)
                        {
                            Sched::get().fail("shadow: " + v.cls + " " + v.facts);
                        }
                        catch (const std::bad_alloc&)
                        {
                        }
                    });
        }
        }
        sched.run();
        simulate_std_mutexes_in(nullptr, nullptr);
        g_upstream_hook = nullptr;
        if (variant % 14 == 7)
        {
            std::set_new_handler(nullptr);
            heap.set_exhausted(false);
            stats().hit("reach.new_handler_calls", g_new_handler_calls);
        }
        std::string leak_problem;
        if (variant % 14 == 6 && !sched.deadlock && !sched.budget_exhausted)
        {
            // everything was released: the process-wide net of this allocator type must be zero. Ending the last
            // counter object reports a non-zero net to the leak handler.
            g_leak_reports = 0;
            auto old = fm::set_leak_handler(
                [](const fm::allocator_info&, std::ptrdiff_t amount)
                {
                    ++g_leak_reports;
                    g_leak_amount = long(amount);
                });
            {
                SimLLCounter::counter last;
            }
            fm::set_leak_handler(old);
            if (g_leak_reports)
            {
                leak_problem = "leak_report_spurious: after balanced concurrent use the process-wide counter of a "
                               "stateless low-level allocator reports a net of "
                               + std::to_string(g_leak_amount) + " bytes";
                // put the counter right again for the runs that follow in this process
                SimLLCounter c;
                if (g_leak_amount > 0)
                    c.on_deallocate(std::size_t(g_leak_amount));
                else
                    c.on_allocate(std::size_t(-g_leak_amount));
            }
        }
        heap.end_op();
        hash.add(sched.schedule_hash());
        hash.add(st.calls);
        stats().hit("reach.scheduling_decisions", sched.steps);
        stats().hit("reach.preemptions", sched.preemptions);
        stats().hit("sut.ts_variant_" + std::to_string(variant % 14));
        if (st.failed)
            stats().hit("fault.wrapped_allocator_threw", st.failed);
        res.nontrivial = sched.preemptions >= 2;
        auto bad = [&](const char* cls, const std::string& facts)
        {
            res.violated = true;
            res.v.prop   = "C13";
            res.v.cls    = cls;
            res.v.facts  = facts;
        };
        if (sched.deadlock)
        {
            bad("deadlock", "unfinished tasks and none runnable");
            res.fatal = true;
        }
        else if (sched.budget_exhausted)
        {
            bad("livelock", "step budget exhausted before all tasks finished");
            res.fatal = true;
        }
        else if (sched.problem.empty() && !leak_problem.empty())
        {
            res.violated = true;
            res.v.prop   = "C13,C15";
            res.v.cls    = "leak_report_spurious";
            res.v.facts  = leak_problem;
        }
        else if (!sched.problem.empty())
        {
            auto colon = sched.problem.find(':');
            auto cls   = colon == std::string::npos ? std::string("mutex_protocol") : sched.problem.substr(0, colon);
            if (cls.find(' ') != std::string::npos)
                cls = "mutex_protocol";
            bad(cls.c_str(), sched.problem);
        }
        else if (variant % 14 == 3 && SimMutex::locks_taken() != 0)
            bad("stateless_locked", "a stateless allocator was wrapped with a real mutex ("
                                        + std::to_string(SimMutex::locks_taken()) + " lock operations)");
        else if ((variant % 14 == 6 || variant % 14 == 7 || variant % 14 == 13) && SimMutex::locks_taken() != 0)
            bad("stateless_locked", "a stateless low-level allocator was wrapped with a real mutex");
        else if ((variant % 14 < 3 || variant % 14 == 5 || variant % 14 >= 8) && st.occupancy != 0)
            bad("overlap", "occupancy counter not back to zero");
        if (!res.violated)
        {
            // what the simulated operating system had to say about the calls it received (under this schedule)
            auto pending = heap.take_pending();
            if (!pending.empty() && pending.compare(0, 8, "HARNESS:") != 0)
            {
                bad("upstream_protocol", pending);
                res.v.prop = "C13,C05";
            }
        }
        if (res.fatal)
            return; // parked threads reference the objects above: leak them
        if (res.violated && (sched.deadlock || sched.budget_exhausted))
            return;
        direct.reset();
        ref.reset();
        any.reset();
        stateless.reset();
        emptystateful.reset();
        heap.begin_op(0);
        tspool.reset();
        heap.end_op();
    }
} // namespace ss
