// Link-time seams (-Wl,--wrap=...) for the places where the library hard-wires libc:
// malloc/free (heap_allocator, malloc_allocator, temporary_block_allocator via default_allocator),
// operator new(size_t, nothrow) / operator delete(void*) (new_allocator),
// mmap / munmap / mprotect / madvise (virtual_memory*).
// While the simulator is "armed" (inside a call into the library) requests are served from SimHeap and are
// subject to fault injection; otherwise they go to the real functions.
#include "../kernel/simheap.hpp"

#include <cerrno>
#include <cstddef>
#include <new>
#include <sys/mman.h>

extern "C"
{
    void* __real_malloc(size_t);
    void  __real_free(void*);
    void* __real_mmap(void*, size_t, int, int, int, long);
    int   __real_munmap(void*, size_t);
    int   __real_mprotect(void*, size_t, int);
    int   __real_madvise(void*, size_t, int);
    void* __real__ZnwmRKSt9nothrow_t(size_t, const std::nothrow_t&);
    void  __real__ZdlPv(void*);
    std::new_handler __real__ZSt15set_new_handlerPFvvE(std::new_handler);
    std::new_handler __real__ZSt15get_new_handlerv();
}

namespace sim
{
    bool g_wrap_malloc = true; // cleared by engines that want the real heap (never by checks of C01..)
}

using sim::SimHeap;

extern "C" void* __wrap_malloc(size_t n)
{
    auto& h = SimHeap::get();
    if (h.armed() && sim::g_wrap_malloc)
        return h.request(sim::OWNER_MALLOC, n, 16);
    return __real_malloc(n);
}

extern "C" void __wrap_free(void* p)
{
    if (!p)
        return;
    auto& h = SimHeap::get();
    if (h.contains(p))
    {
        h.release(sim::OWNER_MALLOC, p, SimHeap::npos, 0, false);
        return;
    }
    __real_free(p);
}

extern "C" void* __wrap__ZnwmRKSt9nothrow_t(size_t n, const std::nothrow_t& t)
{
    auto& h = SimHeap::get();
    if (h.armed() && sim::g_wrap_malloc)
        return h.request(sim::OWNER_NEW, n, 16);
    return __real__ZnwmRKSt9nothrow_t(n, t);
}

extern "C" void __wrap__ZdlPv(void* p)
{
    if (!p)
        return;
    auto& h = SimHeap::get();
    if (h.contains(p))
    {
        h.release(sim::OWNER_NEW, p, SimHeap::npos, 0, false);
        return;
    }
    __real__ZdlPv(p);
}

extern "C" void* __wrap_mmap(void* addr, size_t len, int prot, int flags, int fd, long off)
{
    auto& h = SimHeap::get();
    if (h.armed() && addr == nullptr && (flags & MAP_ANONYMOUS))
    {
        void* p = h.request(sim::OWNER_MMAP, len, 4096);
        if (!p)
        {
            errno = ENOMEM;
            return MAP_FAILED;
        }
        if (!(prot & (PROT_READ | PROT_WRITE)))
            h.commit(p, (len + 4095) / 4096 * 4096, false);
        return p;
    }
    return __real_mmap(addr, len, prot, flags, fd, off);
}

extern "C" int __wrap_munmap(void* p, size_t len)
{
    auto& h = SimHeap::get();
    if (h.contains(p))
    {
        if (len == 0)
        {
            errno = EINVAL; // what the kernel says to munmap(x, 0)
            return -1;
        }
        h.release(sim::OWNER_MMAP, p, len, 0, false);
        return 0;
    }
    if (p == nullptr && h.armed())
    {
        errno = EINVAL;
        return -1;
    }
    return __real_munmap(p, len);
}

extern "C" int __wrap_mprotect(void* p, size_t len, int prot)
{
    auto& h = SimHeap::get();
    if (h.contains(p))
    {
        bool on = (prot & (PROT_READ | PROT_WRITE)) != 0;
        if (on && h.armed())
        {
            // committing memory is an upstream request that can fail
            if (!h.request_fault_only())
            {
                errno = ENOMEM;
                return -1;
            }
        }
        if (sim::g_upstream_hook)
            sim::g_upstream_hook("upstream.commit");
        if (!h.commit(p, len, on))
        {
            // the kernel would answer ENOMEM, or - worse - change a mapping that somebody else has made there since
            h.set_pending(std::string(on ? "commit" : "decommit") + " (mprotect) of a range that is not, or no "
                          "longer, part of a live mapping of the caller");
            errno = ENOMEM;
            return -1;
        }
        return 0;
    }
    return __real_mprotect(p, len, prot);
}

extern "C" int __wrap_madvise(void* p, size_t len, int advice)
{
    auto& h = SimHeap::get();
    if (h.contains(p))
    {
        if (!h.find(p))
            h.set_pending("madvise on a range that is not, or no longer, part of a live mapping of the caller");
        return 0; // content loss is modelled at decommit (garbage on the next commit)
    }
    return __real_madvise(p, len, advice);
}

// std::set_new_handler / std::get_new_handler as called from the library (new_allocator): scheduling points
extern "C" std::new_handler __wrap__ZSt15set_new_handlerPFvvE(std::new_handler h)
{
    if (sim::g_upstream_hook)
        sim::g_upstream_hook("new_handler.set");
    return __real__ZSt15set_new_handlerPFvvE(h);
}

extern "C" std::new_handler __wrap__ZSt15get_new_handlerv()
{
    if (sim::g_upstream_hook)
        sim::g_upstream_hook("new_handler.get");
    return __real__ZSt15get_new_handlerv();
}
