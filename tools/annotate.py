#!/usr/bin/env python3
"""usage: tools/annotate.py <seeded name> <PIDs comma separated> <note>   (records that a change missed at confirmation is caught now)"""
import json, sys, os
HERE = os.path.dirname(os.path.dirname(os.path.abspath(__file__)))
p = os.path.join(HERE, "seeded", sys.argv[1], "meta.json")
m = json.load(open(p))
m["caught_by_checks"] = sorted(set(m.get("caught_by_checks", [])) | set(sys.argv[2].split(",")))
m["note_from_confirmation"] = sys.argv[3]
json.dump(m, open(p, "w"), indent=1)
