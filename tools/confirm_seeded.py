#!/usr/bin/env python3
"""Confirms sub-agent mutants in their scratch worktree and runs the checks against them.
usage: tools/confirm_seeded.py /tmp/mut_C01 C01 [extra PIDs to also try, comma separated]"""
import json, os, shutil, subprocess, sys, glob
root, pid = sys.argv[1], sys.argv[2]
also = [a for a in sys.argv[3].split(",") if a and a != "-"] if len(sys.argv) > 3 else []
tag = sys.argv[4] if len(sys.argv) > 4 else ""
HERE = os.path.dirname(os.path.dirname(os.path.abspath(__file__)))

def sh(cmd, cwd=None, timeout=1800):
    r = subprocess.run(cmd, shell=True, cwd=cwd, capture_output=True, text=True, timeout=timeout)
    return r.returncode, (r.stdout + r.stderr)

def demo_result(k):
    rc, out = sh("sh _out/%s/build_and_run.sh" % k, cwd=root, timeout=900)
    failed = rc != 0 or "FAIL" in out
    return failed, rc, out[-600:]

for d in sorted(glob.glob(os.path.join(root, "_out", "*"))):
    k = os.path.basename(d)
    patch = os.path.join(d, "patch.diff")
    if not os.path.exists(patch) or k in os.environ.get("VERIF_CONFIRM_SKIP", "").split(","):
        continue
    name = "%s-%s%s" % (pid, tag, k)
    res = dict(applies=False, tests_pass_with_mutant=False, demo_fails_with_mutant=False, demo_passes_without=False)
    sh("git checkout -- .", cwd=root)
    rc, out = sh("git apply --check %s && git apply %s" % (patch, patch), cwd=root)
    res["applies"] = rc == 0
    if rc == 0:
        rc, out = sh("cmake --build _build 2>&1 | tail -3 && ./_build/test/foonathan_memory_test | tail -3", cwd=root)
        res["tests_pass_with_mutant"] = "Status: SUCCESS" in out
        res["tests_output"] = out[-300:]
        f, rc2, o2 = demo_result(k)
        res["demo_fails_with_mutant"] = f
        res["demo_with_mutant_tail"] = o2[-300:]
    sh("git checkout -- .", cwd=root)
    sh("cmake --build _build 2>&1 | tail -1", cwd=root)
    f, rc2, o2 = demo_result(k)
    res["demo_passes_without"] = not f
    ok = all(res[x] for x in ("applies", "tests_pass_with_mutant", "demo_fails_with_mutant", "demo_passes_without"))
    caught = []
    log = {}
    if ok:
        for p in [pid] + also:
            r = subprocess.run([os.path.join(HERE, "tools", "mutate.py"), patch, p, "--budget", "25"],
                               capture_output=True, text=True)
            log[p] = [l.strip() for l in r.stdout.splitlines() if "class=" in l or "CAUGHT" in l or "HARNESS" in l][:6]
            if r.returncode == 0:
                caught.append(p)
    print("%s confirmed=%s caught_by=%s %s" % (name, ok, caught, {k2: v for k2, v in res.items() if isinstance(v, bool)}), flush=True)
    for p, l in log.items():
        for x in l:
            print("     [%s] %s" % (p, x), flush=True)
    if ok:
        dst = os.path.join(HERE, "seeded", name)
        os.makedirs(dst, exist_ok=True)
        for fn in ("patch.diff", "demo.cpp", "build_and_run.sh"):
            if os.path.exists(os.path.join(d, fn)):
                shutil.copy(os.path.join(d, fn), os.path.join(dst, fn))
        meta = {}
        try:
            meta = json.load(open(os.path.join(d, "meta.json")))
        except Exception as e:
            meta = {"note": "sub-agent meta.json unreadable: %s" % e}
        meta["property"] = pid
        meta["confirmed_by_me"] = {k2: v for k2, v in res.items() if isinstance(v, bool)}
        meta["what_i_ran"] = ["git apply patch.diff in a scratch worktree; cmake --build _build && _build/test/foonathan_memory_test (42/42 must pass)",
                              "sh build_and_run.sh with the patch (must fail) and on the pristine tree (must pass)",
                              "tools/mutate.py patch.diff %s --budget 25 (VERIF_REPO=<scratch worktree> ./check <ID>)" % ",".join([pid] + also)]
        meta["caught_by_checks"] = caught
        meta["check_output"] = log
        json.dump(meta, open(os.path.join(dst, "meta.json"), "w"), indent=1)
