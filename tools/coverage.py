#!/usr/bin/env python3
"""Reach measurement: which lines of /repo/include and /repo/src do the engines execute?
Builds every engine with --coverage (build flavour "cov"), runs N seeds of every profile every check uses,
and lists the instrumented lines of the library that no run executed.
usage: tools/coverage.py [N=1500] [cfgs=dbg,rwdi]     -> build/coverage/uncovered.txt, summary on stdout"""
import glob, gzip, json, os, subprocess, sys, collections
from concurrent.futures import ThreadPoolExecutor
HERE = os.path.dirname(os.path.dirname(os.path.abspath(__file__)))
sys.path.insert(0, HERE)
from vlib import build, props
N = int(sys.argv[1]) if len(sys.argv) > 1 else 1500
cfgs = (sys.argv[2] if len(sys.argv) > 2 else "dbg,rwdi").split(",")
for f in glob.glob(os.path.join(build.OBJ, "*.gcda")):
    os.remove(f)
combos = set()
for pid, p in props.PROPS.items():
    for part in p.get("parts", [p]):
        combos.add((part["engine"], part["profile"]))
jobs = []
for cfg in cfgs:
    bins = {e: build.build(e, cfg, san="cov") for e in build.ENGINES}
    for e, prof in sorted(combos):
        if cfg == "tm1" and e != "schedsim":
            continue
        for k in range(4):
            jobs.append([bins[e], "run", "--profile", prof, "--base", str(1000 + k), "--from", "0", "--count", str(N // 4),
                         "--samples", "0"])
def run(cmd):
    r = subprocess.run(cmd, capture_output=True, text=True, errors="replace")
    return cmd[3], r.returncode, sum(1 for l in r.stdout.splitlines() if l.startswith("V "))
with ThreadPoolExecutor(16) as ex:
    for prof, rc, nv in ex.map(run, jobs):
        if rc or nv:
            print("note: profile %s rc=%d violations=%d" % (prof, rc, nv))
lines = collections.defaultdict(dict)   # file -> line -> count
funcs = collections.defaultdict(dict)
for gcda in glob.glob(os.path.join(build.OBJ, "*.gcda")):
    r = subprocess.run(["gcov", "--json-format", "--stdout", gcda], capture_output=True, text=True, cwd=build.OBJ)
    for doc in r.stdout.splitlines():
        try:
            j = json.loads(doc)
        except Exception:
            continue
        for f in j.get("files", []):
            fn = os.path.normpath(os.path.join(build.OBJ, f["file"]))
            if not fn.startswith(build.REPO + "/"):
                continue
            for l in f["lines"]:
                d = lines[fn]
                d[l["line_number"]] = d.get(l["line_number"], 0) + l["count"]
            for fu in f.get("functions", []):
                d = funcs[fn]
                key = (fu["start_line"], fu["demangled_name"] if "demangled_name" in fu else fu["name"])
                d[key] = d.get(key, 0) + fu["execution_count"]
out = os.path.join(build.BUILD, "coverage")
os.makedirs(out, exist_ok=True)
tot = hit = 0
with open(os.path.join(out, "uncovered.txt"), "w") as fh:
    for fn in sorted(lines):
        src = open(fn, errors="replace").read().splitlines()
        miss = sorted(l for l, c in lines[fn].items() if c == 0)
        tot += len(lines[fn]); hit += len(lines[fn]) - len(miss)
        print("%-70s %4d/%4d lines executed" % (fn[len(build.REPO) + 1:], len(lines[fn]) - len(miss), len(lines[fn])))
        for l in miss:
            fh.write("%s:%d: %s\n" % (fn[len(build.REPO) + 1:], l, src[l - 1].strip() if l <= len(src) else ""))
print("total %d/%d instrumented library lines executed; list: %s" % (hit, tot, os.path.join(out, "uncovered.txt")))
# lines that look like statements inside function bodies but were never instrumented: templates no engine instantiates
import re
with open(os.path.join(out, "uninstantiated.txt"), "w") as fh:
    n = 0
    for fn in sorted(glob.glob(os.path.join(build.REPO, "include/foonathan/memory/**/*.hpp"), recursive=True)):
        have = lines.get(fn, {})
        for i, text in enumerate(open(fn, errors="replace").read().splitlines(), 1):
            t = text.strip()
            if i in have or not t.endswith(";") or len(text) - len(text.lstrip()) < 16:
                continue
            if re.match(r"(using|typedef|friend|static_assert|template|extern|FOONATHAN_|//|///|\*|static const|class|struct|explicit|virtual|constexpr)", t):
                continue
            if t.startswith("return") or re.search(r"\w\(.*\)", t):
                fh.write("%s:%d: %s\n" % (fn[len(build.REPO) + 1:], i, t)); n += 1
print("statement-like lines never instrumented (uninstantiated templates, roughly): %d -> %s" % (n, os.path.join(out, "uninstantiated.txt")))
