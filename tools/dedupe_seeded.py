#!/usr/bin/env python3
"""usage: tools/dedupe_seeded.py <worktree>/_out  -> prints the sub-directories whose patch is (nearly) a change already kept
under seeded/ (same added/removed lines, Jaccard >= 0.7), as a comma separated list for VERIF_CONFIRM_SKIP"""
import glob, os, sys
HERE = os.path.dirname(os.path.dirname(os.path.abspath(__file__)))
def sig(path):
    out = set()
    for l in open(path, errors="replace"):
        if (l.startswith("+") or l.startswith("-")) and not l.startswith(("+++", "---")):
            t = l[0] + " ".join(l[1:].split())
            if len(t) > 3 and not t[1:].lstrip().startswith("//"):
                out.add(t)
    return out
kept = {os.path.basename(os.path.dirname(p)): sig(p) for p in glob.glob(os.path.join(HERE, "seeded", "*", "patch.diff"))}
skip = []
for d in sorted(glob.glob(os.path.join(sys.argv[1], "*"))):
    p = os.path.join(d, "patch.diff")
    if not os.path.exists(p):
        continue
    s = sig(p)
    best, who = 0.0, ""
    for name, k in kept.items():
        if not s or not k:
            continue
        j = len(s & k) / float(len(s | k))
        if j > best:
            best, who = j, name
    print("%s/%s: closest kept change %s (%.2f)" % (os.path.basename(os.path.dirname(sys.argv[1])), os.path.basename(d), who, best), file=sys.stderr)
    if best >= 0.7:
        skip.append(os.path.basename(d))
print(",".join(skip))
