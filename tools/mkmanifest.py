#!/usr/bin/env python3
"""regenerates /verif/MANIFEST.json from vlib/props.py"""
import json, os, sys
HERE = os.path.dirname(os.path.dirname(os.path.abspath(__file__)))
sys.path.insert(0, HERE)
from vlib import props

all_ids = [json.loads(l)["id"] for l in open(os.path.join(HERE, "properties.jsonl"))]
checks = []
for pid in all_ids:
    if pid not in props.PROPS:
        continue
    s = props.PROPS[pid]
    checks.append(dict(
        property_id=pid,
        quick_cmd="./check %s --tier quick" % pid,
        thorough_cmd="./check %s --tier thorough" % pid,
        evidence_file="evidence/%s.json" % pid,
        replay_cmd_template="./check %s --replay {path}" % pid,
        engine=s["engine"],
        level_claimed=dict(category=s["level"], text=s["text"], design_ref="DESIGN.md section " + s["design"]),
        level_note=s["note"],
        technique=s["technique"]))
na = []
for pid in all_ids:
    if pid in props.PROPS:
        continue
    na.append(dict(property_id=pid, reason=props.NOT_APPLICABLE.get(pid, "check not built yet (work in progress)")))
engines = {}
for pid, s in props.PROPS.items():
    for e in [s["engine"]] + [part["engine"] for part in s.get("parts", [])]:
        if pid not in engines.setdefault(e, []):
            engines[e].append(pid)
m = dict(
    version=1,
    setup_cmd="./check --setup",
    hooks=dict(guard="FOONATHAN_MEMORY_VERIF",
               enable="the harness compiles /repo/src/*.cpp and the headers itself (vlib/build.py) with -DFOONATHAN_MEMORY_VERIF=1 and a generated config_impl.hpp per build configuration",
               baseline_off_cmd="./check --baseline-off",
               source_commits=props.HOOK_COMMITS, add_only=True),
    engines=[dict(name=e, path="sim/" + e, serves_properties=sorted(p), kind_free_text=props.ENGINE_TEXT.get(e, ""))
             for e, p in sorted(engines.items())],
    checks=checks,
    not_applicable=na,
    notes="All checks: exit 0 = held on everything explored (KNOWN-FINDING lines list recorded defects), exit 1 + VIOLATION line, exit 2 = harness error. Genuine defects repaired in /repo are listed as 'fixed' in known_findings.json with their replay files under findings/.")
json.dump(m, open(os.path.join(HERE, "MANIFEST.json"), "w"), indent=1)
print("checks:", [c["property_id"] for c in checks], "n/a:", [n["property_id"] for n in na])
