#!/usr/bin/env python3
"""fills the findings and seeded-changes tables of DESIGN.md from known_findings.json and seeded/*/meta.json"""
import glob, json, os, re
HERE = os.path.dirname(os.path.dirname(os.path.abspath(__file__)))
kf = json.load(open(os.path.join(HERE, "known_findings.json")))["findings"]
rows = ["| id | properties | status | what failed | replay |", "|----|-----------|--------|-------------|--------|"]
for f in sorted(kf, key=lambda f: (f["id"][0] != "F", int(f["id"][1:]))):
    if f["status"] == "fixed":
        what = re.sub(r"^fixed: property=\S+ \S+ ", "", f["line"])
        rows.append("| %s | %s | fixed by `%s` | %s | `%s` |" % (f["id"], ", ".join(f["properties"]), f["commit"], what,
                                                                 f.get("replay", "").split(" ")[0]))
    else:
        rows.append("| %s | %s | **known finding** | %s | `%s` |" % (f["id"], ", ".join(f["properties"]), f["what"],
                                                                     f.get("replay", "")))
findings = "\n".join(rows)
rows = ["| change | what it does (sub-agent's summary, shortened) | needs | caught by |", "|--------|------|-------|-----------|"]
n_total = n_caught = 0
notes = []
for d in sorted(glob.glob(os.path.join(HERE, "seeded", "*"))):
    m = json.load(open(os.path.join(d, "meta.json")))
    n_total += 1
    caught = m.get("caught_by_checks", [])
    if caught:
        n_caught += 1
    def short(s, n):
        s = " ".join(str(s).split())
        return s if len(s) <= n else s[:n - 1] + "…"
    note = " (*)" if m.get("note_from_confirmation") else ""
    if note:
        notes.append("* `%s` — %s" % (os.path.basename(d), " ".join(m["note_from_confirmation"].split())))
    rows.append("| `%s` | %s | %s | %s%s |" % (os.path.basename(d), short(m.get("summary", ""), 170).replace("|", "/"),
                                              short(m.get("needs", ""), 150).replace("|", "/"),
                                              ", ".join(caught) if caught else "**missed**", note))
seeded = "\n".join(rows) + "\n\n%d confirmed changes, %d caught by the check of their property. (*) = see `note_from_confirmation` in the change's meta.json: the first version of the check missed it and was strengthened, or the change has a restriction." % (n_total, n_caught)
seeded += "\n\n**The (*) notes** (%d changes; what the checks lacked and what was added):\n\n" % len(notes) + "\n".join(notes)
p = os.path.join(HERE, "DESIGN.md")
s = open(p).read()
def put(s, name, text):
    b, e = "<!-- %s:BEGIN -->" % name, "<!-- %s:END -->" % name
    if b in s:
        return s[:s.index(b) + len(b)] + "\n" + text + "\n" + s[s.index(e):]
    return s.replace(name + "-TABLE", b + "\n" + text + "\n" + e)
s = put(s, "FINDINGS", findings)
s = put(s, "SEEDED", seeded)
open(p, "w").write(s)
print("findings:", len(kf), "seeded:", n_total, "caught:", n_caught)
