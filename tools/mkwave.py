#!/usr/bin/env python3
"""Writes the task text a mutation sub-agent gets (property text + its scratch worktree, nothing from /verif) into
<prefix><PID>/_out/TASK.txt.   usage: tools/mkwave.py <prefix e.g. /tmp/mut8_> <variant: three|two|two_far> <PID>...
variant three: three changes, any kind (waves 1-8); variant two: one fault/configuration change and one interplay change,
no boundary off-by-ones (wave 9)."""
import json, os, sys
HERE = os.path.dirname(os.path.dirname(os.path.abspath(__file__)))
props = {json.loads(l)["id"]: json.loads(l) for l in open(os.path.join(HERE, "properties.jsonl"))}
THREE = r'''You are helping to evaluate how well a verification effort for the C++ library foonathan/memory detects realistic regressions.

Your workspace is the git worktree {wt} (a checkout of the library; its unit-test build is already configured and built in {wt}/_build, RelWithDebInfo, default options; `cmake --build {wt}/_build && {wt}/_build/test/foonathan_memory_test` rebuilds and runs the whole suite in well under a minute). Work ONLY inside {wt}. Never read, list or touch /repo or /verif or other /tmp/mut* directories. There is no network.

The property of the library you are to break:

  id: {id}
  title: {title}
  statement: {statement}
  quantifier: {qtext}
  code anchors (files): {files}

Task: produce THREE different, independent changes (mutations) to the library sources (include/ or src/ only; never tests) such that each change
  1. still compiles, and the complete existing unit-test suite still passes with it (42 of 42 test cases) in the default build;
  2. breaks the property above (a user relying on the property would be hurt);
  3. looks like something a maintainer could plausibly write (a refactoring slip, an "optimisation", a wrong boundary, a forgotten case, a reordering of two statements, a wrong overload chosen, an exception-safety or move-semantics slip) — not sabotage that any use would expose at once;
  4. needs something SPECIFIC to manifest: a particular interleaving of threads, a failure (allocation failure / exception) at a particular point, a multi-step sequence of operations, an unusual but legal input or configuration (sizes, alignments, block sizes, build options such as Debug fences), a particular memory layout, or two cooperating sites that each look fine alone. Ordinary simple use must keep working.
Prefer places and paths that are easily overlooked: rarely used overloads and template specialisations, traits and adapter glue, error and exception paths, configuration-dependent code (FOONATHAN_MEMORY_DEBUG_* options, fences, checks), growth / boundary / wrap-around cases, move/swap/assignment, the interplay of two classes. Make the three changes differ from each other in location and in kind. Avoid changes whose only effect is a performance difference, a changed error message text, or behaviour the documentation leaves open.

For each change k = 1, 2, 3 write into {wt}/_out/<k>/ :
  - patch.diff : `git diff` of the change against the unmodified worktree (apply-able with `git apply` at the worktree root). The worktree itself must be left UNMODIFIED at the end (git checkout -- . ; only _out/ and _build/ are untracked).
  - demo.cpp : a small standalone program (no test framework) that uses only the library's public API (plus, if you need to inject failures, your own allocator / element types / handlers), exits 0 and prints PASS when the property holds, and exits non-zero (or crashes / prints FAIL) when it is broken.
  - build_and_run.sh : POSIX sh script that builds the library from the checkout given by env ROOT (default {wt}) in build dir BUILD (default $ROOT/_build; say so if you need another configuration, e.g. -DCMAKE_BUILD_TYPE=Debug in $ROOT/_build_dbg, then configure it yourself in the script with -G Ninja -DFOONATHAN_MEMORY_BUILD_EXAMPLES=OFF -DFOONATHAN_MEMORY_BUILD_TESTS=OFF -DCMAKE_CXX_FLAGS=-Wno-error), compiles demo.cpp against it (g++ -std=c++17, -pthread if needed) and runs it; its exit status is the demo's. It must FAIL with the change applied and PASS on the unmodified tree - verify both yourself, and verify that the unit-test suite passes with the change applied.
  - meta.json : {{"property": "{id}", "summary": "<what was changed, where>", "needs": "<what is needed for it to manifest>", "files": [...], "build_config": "<default or what else>", "verified": {{"tests_pass_with_mutant": true, "demo_fails_with_mutant": true, "demo_passes_without": true}}}}

Only report a change whose three "verified" facts you have actually observed. If a demo is timing dependent, make it deterministic (e.g. force the interleaving with your own synchronisation inside a user-supplied mutex/allocator/handler). Final answer: three lines, one per change, each a one-sentence summary.
'''
TWO = r'''You are helping to evaluate how well a verification effort for the C++ library foonathan/memory detects realistic regressions.

Your workspace is the git worktree {wt} (a checkout of the library; its unit-test build is already configured and built in {wt}/_build, RelWithDebInfo, default options; `cmake --build {wt}/_build && {wt}/_build/test/foonathan_memory_test` rebuilds and runs the whole suite in well under a minute). Work ONLY inside {wt}. Never read, list or touch /repo or /verif or other /tmp/mut* directories. There is no network.

The property of the library you are to break:

  id: {id}
  title: {title}
  statement: {statement}
  quantifier: {qtext}
  code anchors (files): {files}

Task: produce TWO different, independent changes (mutations) to the library sources (include/ or src/ only; never tests) such that each change
  1. still compiles, and the complete existing unit-test suite still passes with it (42 of 42 test cases) in the default build;
  2. breaks the property above (a user relying on the property would be hurt);
  3. looks like something a maintainer could plausibly write (a refactoring slip, an "optimisation", a wrong boundary, a forgotten case, a reordering of two statements, a wrong overload chosen, an exception-safety or move-semantics slip) — not sabotage that any use would expose at once;
  4. needs something SPECIFIC to manifest: a particular interleaving of threads, a failure (allocation failure / exception) at a particular point, a multi-step sequence of operations, an unusual but legal input or configuration (sizes, alignments, block sizes, build options such as Debug fences), a particular memory layout, or two cooperating sites that each look fine alone. Ordinary simple use must keep working.
Change 1 must be one that only manifests under a FAULT or in a NON-DEFAULT CONFIGURATION: an allocation failure or exception at one particular point (upstream allocator, user constructor, user handler that returns or throws, a mutex that throws), or a build option (Debug fences / checks, FOONATHAN_MEMORY_TEMPORARY_STACK_MODE, leak checking) - the happy path in the default build stays correct. Change 2 must involve the INTERPLAY of two functions, overloads or classes, or a rarely used form of the API (factory functions, const overloads, type-erased variants, member try_ functions, getters that other code relies on, rebinding / converting constructors, traits defaults for minimal allocators): each site looks fine alone. Do NOT submit yet another off-by-one in a capacity or boundary comparison, and do not merely delete a statement. Make the two changes differ from each other in location and in kind. Avoid changes whose only effect is a performance difference, a changed error message text, or behaviour the documentation leaves open.

For each change k = 1, 2 write into {wt}/_out/<k>/ :
  - patch.diff : `git diff` of the change against the unmodified worktree (apply-able with `git apply` at the worktree root). The worktree itself must be left UNMODIFIED at the end (git checkout -- . ; only _out/ and _build/ are untracked).
  - demo.cpp : a small standalone program (no test framework) that uses only the library's public API (plus, if you need to inject failures, your own allocator / element types / handlers), exits 0 and prints PASS when the property holds, and exits non-zero (or crashes / prints FAIL) when it is broken.
  - build_and_run.sh : POSIX sh script that builds the library from the checkout given by env ROOT (default {wt}) in build dir BUILD (default $ROOT/_build; say so if you need another configuration, e.g. -DCMAKE_BUILD_TYPE=Debug in $ROOT/_build_dbg, then configure it yourself in the script with -G Ninja -DFOONATHAN_MEMORY_BUILD_EXAMPLES=OFF -DFOONATHAN_MEMORY_BUILD_TESTS=OFF -DCMAKE_CXX_FLAGS=-Wno-error), compiles demo.cpp against it (g++ -std=c++17, -pthread if needed) and runs it; its exit status is the demo's. It must FAIL with the change applied and PASS on the unmodified tree - verify both yourself, and verify that the unit-test suite passes with the change applied.
  - meta.json : {{"property": "{id}", "summary": "<what was changed, where>", "needs": "<what is needed for it to manifest>", "files": [...], "build_config": "<default or what else>", "verified": {{"tests_pass_with_mutant": true, "demo_fails_with_mutant": true, "demo_passes_without": true}}}}

Only report a change whose three "verified" facts you have actually observed. If a demo is timing dependent, make it deterministic (e.g. force the interleaving with your own synchronisation inside a user-supplied mutex/allocator/handler). Final answer: two lines, one per change, each a one-sentence summary.
'''
FAR = ("\nEarlier rounds of this exercise produced many changes in the allocate / deallocate / growth paths of "
       "memory_pool.hpp, memory_stack.hpp and memory_arena.hpp and in free_list.cpp; this time look elsewhere first: the other "
       "headers the property touches, src/*.cpp, detail/ headers, traits specialisations, constructors / destructors / "
       "assignment operators, handlers and error classes, configuration macros. A change in one of the much visited "
       "functions is acceptable only if it is of a kind you would not expect anybody to have tried.\n")
prefix, variant = sys.argv[1], sys.argv[2]
T = THREE if variant == "three" else TWO
if variant == "two_far":
    T = TWO.replace("\nFor each change k = 1, 2 write", FAR + "\nFor each change k = 1, 2 write")
for pid in sys.argv[3:]:
    p = props[pid]
    wt = prefix + pid
    os.makedirs(wt + "/_out", exist_ok=True)
    open(wt + "/_out/TASK.txt", "w").write(T.format(wt=wt, id=pid, title=p["title"], statement=p["statement"],
                                                     qtext=p["quantifier"]["text"], files=", ".join(p["anchors"]["files"])))
    print(pid, "ok")
