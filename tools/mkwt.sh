#!/bin/sh
# usage: tools/mkwt.sh <dir>...   scratch worktrees of /repo (HEAD) with the pinned suite built in <dir>/_build
for d in "$@"; do
  git -C /repo worktree add --detach "$d" HEAD -q || exit 1
  cmake -G Ninja -B "$d/_build" -S "$d" -DCMAKE_BUILD_TYPE=RelWithDebInfo -DCMAKE_CXX_FLAGS=-Wno-error \
        -DFETCHCONTENT_TRY_FIND_PACKAGE_MODE=ALWAYS -DFOONATHAN_MEMORY_BUILD_EXAMPLES=OFF -DFOONATHAN_MEMORY_BUILD_TOOLS=ON > "$d/_build.log" 2>&1 \
   && cmake --build "$d/_build" -j 6 >> "$d/_build.log" 2>&1 \
   && "$d/_build/test/foonathan_memory_test" | tail -2
  mkdir -p "$d/_out"
done
