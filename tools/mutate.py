#!/usr/bin/env python3
"""Sensitivity: apply a patch to a scratch worktree of /repo, run the named checks against it, expect VIOLATION.
usage: tools/mutate.py <patch> <PID>[,<PID>...] [--budget s]    (exit 0 = caught by at least one)"""
import os, subprocess, sys, shutil
HERE = os.path.dirname(os.path.dirname(os.path.abspath(__file__)))
patch, pids = sys.argv[1], sys.argv[2].split(",")
budget = "25"
if "--budget" in sys.argv:
    budget = sys.argv[sys.argv.index("--budget") + 1]
wt = "/tmp/vmut_%d" % os.getpid()
subprocess.run(["git", "-C", "/repo", "worktree", "add", "--detach", wt, "HEAD", "-q"], check=True)
try:
    r = subprocess.run(["git", "-C", wt, "apply", os.path.abspath(patch)])
    if r.returncode != 0:
        print("PATCH DOES NOT APPLY"); sys.exit(3)
    env = dict(os.environ, VERIF_REPO=wt, VERIF_EVIDENCE_DIR=os.path.join(HERE, "build", "evidence_mutants"))
    caught = []
    for pid in pids:
        r = subprocess.run([os.path.join(HERE, "check"), pid, "--budget", budget], env=env, capture_output=True, text=True, cwd=HERE)
        lines = [l for l in r.stdout.splitlines() if l.startswith(("VIOLATION", "  class", "HARNESS", "KNOWN")) or " quick:" in l]
        print("[%s] rc=%d" % (pid, r.returncode)); print("\n".join("   " + l for l in lines[:8]))
        if r.returncode == 1:
            caught.append(pid)
        if r.returncode == 2:
            print(r.stdout[-1500:])
    print("CAUGHT by", caught if caught else "NOTHING")
    sys.exit(0 if caught else 1)
finally:
    subprocess.run(["git", "-C", "/repo", "worktree", "remove", "--force", wt])
