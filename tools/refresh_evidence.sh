#!/bin/sh
# Re-runs every registered quick check in /verif itself against /repo's working tree (never from a snapshot) and so
# rewrites /verif/evidence/<ID>.json (to be committed). Nothing else should be running meanwhile.
# usage: tools/refresh_evidence.sh [ID ...]
cd "$(dirname "$0")/.." || exit 1
unset VERIF_ONLY_BUILDS VERIF_EVIDENCE_DIR VERIF_REPO
IDS="$*"
[ -n "$IDS" ] || IDS=$(python3 -c "import json;print(' '.join(c['property_id'] for c in json.load(open('MANIFEST.json'))['checks']))")
for id in $IDS; do
  VERIF_SEED=1 VERIF_TIER=quick ./check "$id" --tier quick 2>&1 | grep -v "^\[build" | cut -c1-200 | tail -3
done
