#!/bin/sh
# Re-runs every registered quick check on the unchanged tree from a frozen copy of /verif HEAD and writes the
# evidence files into /verif/evidence (to be committed). usage: tools/refresh_evidence.sh [ID ...]
set -e
SNAP=/tmp/verif_evsnap_$$
git -C /verif worktree add --detach "$SNAP" HEAD -q
mkdir -p "$SNAP/build"; cp -r /verif/build/obj /verif/build/bin "$SNAP/build/" 2>/dev/null || true
IDS="$*"
[ -n "$IDS" ] || IDS=$(python3 -c "import json;print(' '.join(c['property_id'] if 'property_id' in c else c['id'] for c in json.load(open('/verif/MANIFEST.json'))['checks']))")
for id in $IDS; do
  (cd "$SNAP" && VERIF_SEED=1 VERIF_TIER=quick VERIF_EVIDENCE_DIR=/verif/evidence ./check $id 2>&1 | grep -v "^\[build" | cut -c1-200 | tail -3)
done
git -C /verif worktree remove --force "$SNAP"
