#!/usr/bin/env python3
"""runs every mutants/*.patch (property id = file name prefix) through tools/mutate.py and prints a table"""
import glob, os, subprocess, sys
here = os.path.dirname(os.path.dirname(os.path.abspath(__file__)))
only = sys.argv[1:] 
res = []
for p in sorted(glob.glob(os.path.join(here, "mutants", "*.patch"))):
    name = os.path.basename(p)[:-6]
    pid = name.split("-")[0]
    if only and not any(o in name for o in only):
        continue
    r = subprocess.run([os.path.join(here, "tools", "mutate.py"), p, pid, "--budget", "20"], capture_output=True, text=True)
    tail = [l for l in r.stdout.splitlines() if "class=" in l or "CAUGHT" in l or "HARNESS" in l or "PATCH" in l]
    res.append((name, r.returncode, tail))
    print("%-70s %s" % (name, "caught" if r.returncode == 0 else "MISSED rc=%d" % r.returncode), flush=True)
    for t in tail[:3]:
        print("      " + t.strip(), flush=True)
print("caught %d of %d" % (sum(1 for r in res if r[1] == 0), len(res)))
