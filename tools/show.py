#!/usr/bin/env python3
import json,sys
for f in sys.argv[1:]:
    j=json.load(open(f))
    v=j['violation']
    print('==',f); print(v['cls'],'|',v['sut'],'|',j['build'],'|',v['facts'])
    cfg=[l[4:] for l in j['plan'] if l.startswith('cfg ') and not any(k in l for k in ('hseed','seed=','profile'))]
    print('  '+' '.join(cfg))
    for l in j['plan']:
        if l.startswith('op ') or l.startswith('task '): print('  '+l)
