#!/bin/sh
# usage: tools/snapshot_confirm.sh <mutant worktree> <PID> [tag]
# Confirms sub-agent changes with a frozen copy of /verif (so that edits in /verif do not disturb the run),
# then copies the kept changes back into /verif/seeded.
set -e
SNAP=/tmp/verif_snap_$$
git -C /verif worktree add --detach "$SNAP" HEAD -q
mkdir -p "$SNAP/build"; cp -al /verif/build/obj /verif/build/bin "$SNAP/build/" 2>/dev/null || true
"$SNAP/tools/confirm_seeded.py" "$1" "$2" - "$3"
mkdir -p /verif/seeded
for d in "$SNAP"/seeded/*; do [ -e "/verif/seeded/$(basename $d)" ] || cp -r "$d" /verif/seeded/; done
git -C /verif worktree remove --force "$SNAP"
