#!/bin/sh
# usage: tools/snapshot_confirm.sh <mutant worktree> <PID> [tag]
# Confirms sub-agent changes with a frozen copy of /verif (so that edits in /verif do not disturb the run),
# then copies the kept changes back into /verif/seeded.
set -e
SNAP=/tmp/verif_snap_$$
git -C /verif worktree add --detach "$SNAP" HEAD -q
"$SNAP/tools/confirm_seeded.py" "$1" "$2" - "$3"
mkdir -p /verif/seeded
cp -r "$SNAP"/seeded/* /verif/seeded/ 2>/dev/null || true
git -C /verif worktree remove --force "$SNAP"
