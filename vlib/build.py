"""Builds the simulators from /repo's current working tree.

Objects are cached by a hash of (compile flags, source content, content of every header that could be
included), so an edit to /repo or /verif/sim rebuilds exactly what depends on it; an unchanged tree reuses
everything. Nothing lives outside /verif/build.
"""
import hashlib
import os
import re
import subprocess
import sys
import time
from concurrent.futures import ThreadPoolExecutor

VERIF = os.path.dirname(os.path.dirname(os.path.abspath(__file__)))
REPO = os.environ.get("VERIF_REPO", "/repo")
BUILD = os.path.join(VERIF, "build")
OBJ = os.path.join(BUILD, "obj")
BIN = os.path.join(BUILD, "bin")
CFG = os.path.join(BUILD, "cfg")
CXX = os.environ.get("VERIF_CXX", "g++")
JOBS = int(os.environ.get("VERIF_JOBS", str(min(16, os.cpu_count() or 4))))

#                 ASSERT FILL FENCE LEAK PTR DOUBLE
CONFIGS = {
    "rel":   dict(ASSERT=0, FILL=0, FENCE=0, LEAK=0, PTR=0, DOUBLE=0, TMODE=2),
    "rwdi":  dict(ASSERT=0, FILL=1, FENCE=0, LEAK=1, PTR=1, DOUBLE=0, TMODE=2),
    "dbg":   dict(ASSERT=1, FILL=1, FENCE=8, LEAK=1, PTR=1, DOUBLE=1, TMODE=2),
    "dbg16": dict(ASSERT=1, FILL=1, FENCE=16, LEAK=1, PTR=1, DOUBLE=1, TMODE=2),
    "tm1":   dict(ASSERT=0, FILL=1, FENCE=0, LEAK=1, PTR=1, DOUBLE=0, TMODE=1),
    # a mixed configuration: the fence macro is set but fill is off (so the effective fence size is 0), checks on
    "rf8":   dict(ASSERT=0, FILL=0, FENCE=8, LEAK=1, PTR=1, DOUBLE=0, TMODE=2),
    # the two options the presets always switch together, apart: leak checking without pointer checking and the
    # other way round (C15 exit part; seeded change C15-w7-2 keyed the global leak checker to the wrong option)
    "lk":    dict(ASSERT=0, FILL=0, FENCE=0, LEAK=1, PTR=0, DOUBLE=0, TMODE=2),
    "pk":    dict(ASSERT=0, FILL=0, FENCE=0, LEAK=0, PTR=1, DOUBLE=0, TMODE=2),
}

WRAPS = ["malloc", "free", "mmap", "munmap", "mprotect", "madvise", "_ZnwmRKSt9nothrow_t", "_ZdlPv",
         "_ZSt15set_new_handlerPFvvE", "_ZSt15get_new_handlerv"]

SAN_FLAGS = {
    "asan": ["-O1", "-g1", "-fsanitize=address,undefined", "-fno-sanitize-recover=undefined",
             "-fno-omit-frame-pointer"],
    "plain": ["-O2", "-g1"],
    # line coverage of the library under the harness (tools/coverage.py only; never used by a check)
    "cov": ["-O0", "-g1", "--coverage", "-DVERIF_COVERAGE=1"],
}

LIB_SOURCES = [
    "detail/align.cpp", "detail/debug_helpers.cpp", "detail/assert.cpp", "detail/free_list.cpp",
    "detail/free_list_array.cpp", "detail/small_free_list.cpp", "debugging.cpp", "error.cpp",
    "heap_allocator.cpp", "iteration_allocator.cpp", "malloc_allocator.cpp", "memory_arena.cpp",
    "memory_pool.cpp", "memory_pool_collection.cpp", "memory_stack.cpp", "new_allocator.cpp",
    "static_allocator.cpp", "temporary_allocator.cpp", "virtual_memory.cpp",
]

ENGINES = {
    "histsim": dict(
        sources=["kernel/simheap.cpp", "kernel/engine.cpp", "wrap/wrap.cpp", "histsim/main.cpp",
                 "histsim/interp.cpp", "histsim/gen.cpp", "histsim/reg_pools_a.cpp",
                 "histsim/reg_pools_b.cpp", "histsim/reg_colls_a.cpp", "histsim/reg_colls_b.cpp",
                 "histsim/reg_stacks.cpp", "histsim/reg_iters.cpp", "histsim/reg_arenas.cpp",
                 "histsim/reg_misc.cpp", "histsim/death.cpp"],
        wraps=WRAPS, libs=[]),
    "schedsim": dict(
        sources=["kernel/simheap.cpp", "kernel/engine.cpp", "wrap/wrap.cpp", "schedsim/main.cpp",
                 "schedsim/gen.cpp", "schedsim/sched.cpp", "schedsim/ts.cpp", "schedsim/temp.cpp"],
        first=["schedsim/static_user.cpp"],  # linked before the library's translation units
        wraps=WRAPS + ["pthread_mutex_lock", "pthread_mutex_unlock"], libs=[]),
    "compsim": dict(
        sources=["kernel/simheap.cpp", "kernel/engine.cpp", "wrap/wrap.cpp", "compsim/main.cpp",
                 "compsim/gen.cpp", "compsim/comps_a.cpp", "compsim/comps_b.cpp", "compsim/comps_c.cpp", "compsim/wrap.cpp",
                 "compsim/smart.cpp", "compsim/joint.cpp", "compsim/deep.cpp", "compsim/cont.cpp", "compsim/cont_0.cpp",
                 "compsim/cont_1.cpp", "compsim/cont_2.cpp", "compsim/cont_3.cpp", "compsim/cont_4.cpp",
                 "compsim/cont_5.cpp", "compsim/cont_6.cpp", "compsim/cont_7.cpp", "compsim/cont_8.cpp", "compsim/cont_9.cpp", "compsim/cont_10.cpp"],
        wraps=WRAPS, libs=[], nodesizes=True),
}


def _sha(*parts):
    h = hashlib.sha256()
    for p in parts:
        if isinstance(p, str):
            p = p.encode()
        h.update(p)
        h.update(b"\0")
    return h.hexdigest()


def _files_under(root, exts):
    out = []
    for d, _, fs in os.walk(root):
        if "/build" in d or "/.git" in d:
            continue
        for f in sorted(fs):
            if f.endswith(exts):
                out.append(os.path.join(d, f))
    return sorted(out)


_header_hash_cache = {}


def headers_hash():
    """hash of every header a TU might include (repo headers, repo src headers, sim headers)"""
    key = REPO
    if key in _header_hash_cache:
        return _header_hash_cache[key]
    h = hashlib.sha256()
    files = (_files_under(os.path.join(REPO, "include"), (".hpp", ".h"))
             + _files_under(os.path.join(REPO, "src"), (".hpp", ".h", ".in"))
             + _files_under(os.path.join(REPO, "cmake"), (".cpp", ".in", ".cmake"))
             + _files_under(os.path.join(VERIF, "sim"), (".hpp", ".h")))
    for f in files:
        h.update(os.path.relpath(f, "/").encode())
        with open(f, "rb") as fh:
            h.update(fh.read())
    _header_hash_cache[key] = h.hexdigest()
    return _header_hash_cache[key]


def tree_hash():
    h = hashlib.sha256()
    h.update(headers_hash().encode())
    for f in (_files_under(os.path.join(REPO, "src"), (".cpp",))
              + _files_under(os.path.join(VERIF, "sim"), (".cpp",))):
        with open(f, "rb") as fh:
            h.update(fh.read())
    return h.hexdigest()[:16]


def config_dir(cfg):
    c = CONFIGS[cfg]
    text = """// generated by /verif/vlib/build.py (mirrors src/config.hpp.in)
#ifndef FOONATHAN_MEMORY_IMPL_IN_CONFIG_HPP
#error "do not include this file directly, use config.hpp"
#endif
#include <cstddef>
#define FOONATHAN_MEMORY_CHECK_ALLOCATION_SIZE 1
#define FOONATHAN_MEMORY_IMPL_DEFAULT_ALLOCATOR heap_allocator
#define FOONATHAN_MEMORY_DEBUG_ASSERT %(ASSERT)d
#define FOONATHAN_MEMORY_DEBUG_FILL %(FILL)d
#define FOONATHAN_MEMORY_DEBUG_FENCE %(FENCE)d
#define FOONATHAN_MEMORY_DEBUG_LEAK_CHECK %(LEAK)d
#define FOONATHAN_MEMORY_DEBUG_POINTER_CHECK %(PTR)d
#define FOONATHAN_MEMORY_DEBUG_DOUBLE_DEALLOC_CHECK %(DOUBLE)d
#define FOONATHAN_MEMORY_EXTERN_TEMPLATE 1
#define FOONATHAN_MEMORY_TEMPORARY_STACK_MODE %(TMODE)d
""" % c
    d = os.path.join(CFG, cfg)
    os.makedirs(d, exist_ok=True)
    p = os.path.join(d, "config_impl.hpp")
    if not os.path.exists(p) or open(p).read() != text:
        with open(p, "w") as f:
            f.write(text)
    return d


def node_sizes_header():
    """container_node_sizes_impl.hpp produced the way the repository's CMake does it: compile
    cmake/get_align_of.cpp / cmake/get_node_size.cpp, read the sizes off the compiler's error text, fill
    cmake/container_node_sizes_impl.hpp.in."""
    key = _sha(headers_hash(), CXX)[:16]
    d = os.path.join(CFG, "nodesizes-" + key)
    out = os.path.join(d, "container_node_sizes_impl.hpp")
    if os.path.exists(out):
        return d
    os.makedirs(d, exist_ok=True)
    cm = os.path.join(REPO, "cmake")
    all_types = ["char", "bool", "short", "int", "long", "LONG_LONG", "float", "double", "LONG_DOUBLE"]

    def align_of(t):
        r = subprocess.run([CXX, "-std=c++11", "-fsyntax-only", "-DTEST_TYPE=" + t,
                            os.path.join(cm, "get_align_of.cpp")], capture_output=True, text=True)
        m = re.search(r"align_of<.*,[ ]*([0-9]+)[ul ]*>", r.stderr)
        if not m:
            raise RuntimeError("cannot determine alignment of " + t + "\n" + r.stderr[:2000])
        return int(m.group(1))

    with ThreadPoolExecutor(JOBS) as ex:
        aligns = list(ex.map(align_of, all_types))
    types, alignments = [], []
    for t, a in zip(all_types, aligns):
        if a not in alignments:
            alignments.append(a)
            types.append(t)
    containers = ["forward_list", "list", "set", "multiset", "unordered_set", "unordered_multiset", "map",
                  "multimap", "unordered_map", "unordered_multimap", "shared_ptr_stateless",
                  "shared_ptr_stateful"]

    def node_size(ct):
        c, t = ct
        r = subprocess.run([CXX, "-std=c++11", "-fsyntax-only", "-D%s_CONTAINER=1" % c.upper(),
                            "-DTEST_TYPE=" + t, os.path.join(cm, "get_node_size.cpp")],
                           capture_output=True, text=True)
        m = re.search(r"node_size_of<[ ]*([0-9]+)[ul ]*,[ ]*([0-9]+)[ul ]*,[ ]*true[ ]*>", r.stderr)
        if not m:
            raise RuntimeError("cannot determine node size of %s<%s>\n%s" % (c, t, r.stderr[:2000]))
        return c, int(m.group(1)), int(m.group(2))

    with ThreadPoolExecutor(JOBS) as ex:
        res = list(ex.map(node_size, [(c, t) for c in containers for t in types]))
    contents = ""
    for c in containers:
        seen = []
        contents += "namespace detail\n{\n    template <std::size_t Alignment>\n    struct %s_node_size;\n" % c
        for cc, a, n in res:
            if cc == c and a not in seen:
                seen.append(a)
                contents += ("\n    template <>\n    struct %s_node_size<%d>\n    : std::integral_constant<std::size_t, %d>\n    {};\n" % (c, a, n))
        contents += "} // namespace detail\n\n"
        contents += ("template <typename T>\nstruct %s_node_size\n: std::integral_constant<std::size_t,\n"
                     "    detail::round_up_to_multiple_of_alignment(detail::%s_node_size<alignof(T)>::value + sizeof(T), alignof(void*))>\n{};\n\n"
                     % (c, c))
    tmpl = open(os.path.join(cm, "container_node_sizes_impl.hpp.in")).read()
    text = tmpl.replace("@NODE_SIZE_CONTENTS@", contents)
    with open(out, "w") as f:
        f.write(text)
    return d


def _compile(job):
    src, obj, cmd = job
    if os.path.exists(obj):
        os.utime(obj, None)
        return (src, True, "")
    tmp = obj + ".tmp%d" % os.getpid()
    r = subprocess.run(cmd + ["-c", src, "-o", tmp], capture_output=True, text=True)
    if r.returncode != 0:
        return (src, False, r.stderr[-6000:])
    os.replace(tmp, obj)
    return (src, True, r.stderr[-2000:])


def build(engine, cfg, san="asan", quiet=False, extra_defs=()):
    """returns path of the engine binary for build configuration cfg; raises RuntimeError with the compiler
    output on failure"""
    os.makedirs(OBJ, exist_ok=True)
    os.makedirs(BIN, exist_ok=True)
    spec = ENGINES[engine]
    cdir = config_dir(cfg)
    incs = ["-I" + cdir, "-I" + os.path.join(REPO, "include"),
            "-I" + os.path.join(REPO, "include/foonathan/memory"), "-I" + os.path.join(REPO, "src"),
            "-I" + os.path.join(VERIF, "sim")]
    if spec.get("nodesizes"):
        incs.insert(0, "-I" + node_sizes_header())
    defs = ["-DFOONATHAN_MEMORY=1", "-DFOONATHAN_MEMORY_VERSION_MAJOR=0", "-DFOONATHAN_MEMORY_VERSION_MINOR=7",
            "-DFOONATHAN_MEMORY_VERSION_PATCH=4", "-DFOONATHAN_MEMORY_VERIF=1",
            '-DVERIF_BUILD_NAME="%s"' % cfg] + list(extra_defs) + list(spec.get("defs", []))
    flags = ["-std=c++17", "-Wall", "-Wno-unused", "-pthread"] + SAN_FLAGS[san]
    base = [CXX] + flags + defs + incs
    hh = headers_hash()
    cfg_text = open(os.path.join(cdir, "config_impl.hpp")).read()
    jobs = []
    objs = []
    srcs = ([os.path.join(VERIF, "sim", s) for s in spec.get("first", [])]
            + [os.path.join(REPO, "src", s) for s in LIB_SOURCES]
            + [os.path.join(VERIF, "sim", s) for s in spec["sources"]])
    for s in srcs:
        with open(s, "rb") as fh:
            content = fh.read()
        key = _sha(" ".join(base), content, hh, cfg_text, s)[:24]
        obj = os.path.join(OBJ, key + ".o")
        objs.append(obj)
        jobs.append((s, obj, base))
    t0 = time.time()
    todo = [j for j in jobs if not os.path.exists(j[1])]
    if todo and not quiet:
        print("[build] %s/%s/%s: compiling %d of %d translation units" % (engine, cfg, san, len(todo),
                                                                          len(jobs)), file=sys.stderr)
    with ThreadPoolExecutor(JOBS) as ex:
        results = list(ex.map(_compile, jobs))
    for src, ok, err in results:
        if not ok:
            raise RuntimeError("compile failed: %s\n%s" % (src, err))
    linkkey = _sha(" ".join(objs), " ".join(spec.get("wraps", [])), san)[:16]
    binp = os.path.join(BIN, "%s-%s-%s-%s" % (engine, cfg, san, linkkey))
    if not os.path.exists(binp):
        wrap = ["-Wl,--wrap=" + w for w in spec.get("wraps", [])]
        cmd = [CXX] + flags + objs + wrap + ["-o", binp + ".tmp%d" % os.getpid()] + spec.get("libs", [])
        r = subprocess.run(cmd, capture_output=True, text=True)
        if r.returncode != 0:
            raise RuntimeError("link failed: %s\n%s" % (engine, r.stderr[-6000:]))
        os.replace(binp + ".tmp%d" % os.getpid(), binp)
    else:
        os.utime(binp, None)
    if todo and not quiet:
        print("[build] %s/%s/%s done in %.1fs" % (engine, cfg, san, time.time() - t0), file=sys.stderr)
    return binp


def prune(max_bytes=3 << 30, max_age_s=6 * 3600):
    """keep the cache bounded: drop least recently used objects/binaries beyond max_bytes"""
    ents = []
    for d in (OBJ, BIN):
        if not os.path.isdir(d):
            continue
        for f in os.listdir(d):
            p = os.path.join(d, f)
            try:
                st = os.stat(p)
            except OSError:
                continue
            ents.append((st.st_mtime, st.st_size, p))
    ents.sort(reverse=True)
    tot = 0
    now = time.time()
    for mt, sz, p in ents:
        tot += sz
        if tot > max_bytes or (".tmp" in p and now - mt > 600):
            try:
                os.remove(p)
            except OSError:
                pass
