"""Per-property check configuration: which engine, which generator profile, which builds, budgets, and the
texts that go into MANIFEST.json / evidence."""

COMMON_REAL = ["everything under /repo/include and /repo/src, compiled from the working tree by the harness "
               "in the listed build configurations (EXTERN_TEMPLATE=1, hooks on)"]
COMMON_STUB = ["upstream memory source (SimHeap: sim_lifo_allocator / sim_block_allocator / wrapped malloc, "
               "operator new(nothrow), mmap, mprotect, munmap, madvise)", "recording handlers "
               "(leak, invalid pointer, buffer overflow, out_of_memory, bad_allocation_size)"]

PROPS_COMP_RULE = ("each run = one plan drawn from a 63-bit seed (composition / helper, leaf limits and budgets, "
                   "thresholds, request shapes, leaf or constructor failures attached to operations), executed "
                   "against the real templates over logging leaf allocators; distinct = distinct run hash (op "
                   "outcomes, returned offsets, leaf ledger); non-trivial = at least two creation/operation cases")

PROPS_COMP_RULE_CONT = ("each run = one plan drawn from a 63-bit seed (container kind, element type, allocator "
                        "flavour, operation history over 4 containers on 2 allocators, allocation failures); distinct = "
                        "distinct run hash (outcome and per-allocator live counts after each op); non-trivial = at least "
                        "4 operations of which at least one is a cross-container operation (assign/move/swap/copy/splice)")

HIST_RULE = ("each run = one plan drawn from a 63-bit seed (SUT type and parameters, block source, placement "
             "policy of upstream blocks and of the allocator object, interface family mix, op mix, fault "
             "plan), executed against the real library; distinct = distinct run hash (sequence of op outcomes, "
             "returned offsets and upstream ledger events); non-trivial = (at least one upstream request after "
             "the first successful allocation, i.e. growth mid-history; for sources that cannot grow: at least "
             "4 successful allocations) AND at least one release/unwind/iteration switch")

PROPS = {
    "C01": dict(
        engine="histsim", profile="C01", builds=["dbg", "rwdi", "rel"], level="exploration",
        quick_s=50, thorough_s=600,
        technique="deterministic simulation: seeded operation histories over a simulated upstream with fault "
                  "injection, shadow-model oracle (disjointness, containment, content patterns)",
        text="Seeded search over operation histories x upstream placement x upstream failures for every "
             "allocator kind in three build configurations; each live allocation is checked against an "
             "interval model (disjoint, inside a block its allocator holds, contents preserved). Sampling, not "
             "proof: the history space is unbounded.",
        note="Trusts the harness's SimHeap ledger and pattern oracle; ASan/UBSan keep out-of-block accesses "
             "visible. No instruction-level concurrency (single task).",
        design="3/C01"),
    "C02": dict(
        engine="histsim", profile="C02", builds=["dbg", "dbg16", "rwdi", "rf8"], level="exploration",
        quick_s=50, thorough_s=600,
        technique="deterministic simulation: boundary-biased seeded histories, alignment/size oracle with "
                  "ASan-poisoned surroundings",
        text="Same simulator as C01 with the size/alignment oracle: every returned pointer is non-null, "
             "aligned as requested, and all size (count*size) bytes are written and read back while "
             "everything around the upstream block is poisoned; fence 0/8/16 builds.",
        note="Alignments are those each allocator documents as acceptable; over-aligned collection nodes are "
             "excluded (documented precondition).",
        design="3/C02"),
    "C03": dict(
        engine="histsim", profile="C03", builds=["dbg", "rwdi", "rel"], level="exploration",
        parts=[dict(engine="histsim", profile="C03", builds=["dbg", "rwdi", "rel"], weight=5.0),
               # the try_ functions of the adapters (never throw, never reach a throwing interface) ...
               dict(engine="compsim", profile="C03W", builds=["dbg"], weight=0.5),
               # ... and joint memory as a fixed-size source that is exhausted
               dict(engine="compsim", profile="C11", builds=["dbg"], weight=0.5)],
        quick_s=55, thorough_s=600,
        technique="deterministic simulation with fault injection: upstream failure attached to ops, "
                  "exhaustion of fixed sources, over-limit requests; exception/handler/try_ oracles",
        text="Seeded histories with upstream failures at drawn upstream calls, fixed sources driven dry, "
             "and requests around the advertised maxima; oracles: never null from a throwing function, "
             "exception type and handler call, try_ never throws or grows, earlier allocations intact, "
             "allocator usable afterwards.",
        note="No expectation about which exception subclass; success is only demanded for requests "
             "comfortably inside the advertised maxima after faults stop.",
        design="3/C03"),
    "C04": dict(
        engine="histsim", profile="C04", builds=["dbg", "rwdi", "rel"], level="exploration",
        quick_s=45, thorough_s=600,
        technique="deterministic simulation: interleaved node/array histories and repeated cycles, "
                  "capacity-conservation oracle against the pool's own earlier readings",
        text="Episodes (everything released -> capacity >= start), per-release capacity deltas equal to what "
             "the allocation took, no upstream request while the matching list holds a node, simple cycles "
             "do not grow; all three list types, ordered and unordered node lists.",
        note="Compares the pool with its own readings and the upstream ledger, never with a formula of the "
             "harness (except ceil(bytes/node) for arrays).",
        design="3/C04"),
    "C05": dict(
        engine="histsim", profile="C05", builds=["dbg", "rwdi", "rel"], level="exploration",
        parts=[dict(engine="histsim", profile="C05", builds=["dbg", "rwdi", "rel"], weight=6.0),
               # the temporary block source: its blocks go back at thread exit / program exit (forked children)
               dict(engine="schedsim", profile="C14", builds=["rwdi"], weight=0.7)],
        quick_s=50, thorough_s=600,
        technique="deterministic simulation with fault injection: upstream block ledger (exact match, "
                  "exactly-once, LIFO) under injected upstream failures",
        text="memory_arena driven directly and through every arena user; the simulated upstream checks each "
             "release for address/size/alignment match, double release, owner, LIFO order, and outstanding "
             "== 0 at destruction, with failures injected at drawn upstream calls (incl. constructors).",
        note="LIFO is enforced by the simulated upstream for sim sources and by the library's own checks for "
             "static/virtual sources (reported through the invalid-pointer handler).",
        design="3/C05"),
    "C06": dict(
        engine="histsim", profile="C06", builds=["dbg", "rwdi", "rel"], level="exploration",
        quick_s=45, thorough_s=600,
        technique="deterministic simulation: nested markers across blocks with replay tapes; "
                  "state-restoration oracle",
        text="allocate/top/unwind/shrink_to_fit/move histories on memory_stack over all block sources; "
             "after unwind: capacity snapshot, top()==marker, older allocations intact, recorded requests "
             "replay to identical addresses with zero upstream traffic, marker order consistent.",
        note="Replay is only demanded while the model knows the cache was not purged and no failure hit the "
             "taped requests.",
        design="3/C06"),
    "C07": dict(
        engine="histsim", profile="C07", builds=["dbg", "rwdi", "rel", "rf8"], level="exploration",
        quick_s=45, thorough_s=600,
        technique="deterministic simulation: seeded allocate/next_iteration histories for N=1..5 and all "
                  "block-size residues; lifetime and region-capacity oracle",
        text="iteration_allocator<1..5> with block sizes of every residue mod N: allocations keep their "
             "pattern for N switches, regions never overlap (shadow), region capacity is restored on switch, "
             "regions sum to at most the block.",
        note="Full capacity of a region is what the allocator itself reported right after construction.",
        design="3/C07"),
    "C08": dict(
        engine="histsim", profile="C08", builds=["dbg", "rwdi"], level="exploration",
        parts=[dict(engine="histsim", profile="C08", builds=["dbg", "rwdi"], weight=2.0),
               dict(engine="compsim", profile="C08", builds=["dbg", "rwdi"], weight=1.0)],
        quick_s=40, thorough_s=600,
        technique="deterministic simulation: sibling allocators on adjacently packed upstream blocks; "
                  "ownership oracle for try_deallocate",
        text="Two sibling composable allocators on one simulated heap packed with zero gaps; try_deallocate "
             "of each other's live memory must return false and change nothing, of own memory true. "
             "(Fallback-allocator routing is checked by compsim, see C08 there.)",
        note="Siblings are of the same type with independent parameters; ownership tests are address based.",
        design="3/C08"),
    "C09": dict(
        engine="compsim", profile="C09", builds=["dbg", "rwdi"], level="exploration",
        parts=[dict(engine="compsim", profile="C09", builds=["dbg", "rwdi"], weight=2.0),
               dict(engine="compsim", profile="C09S", builds=["dbg", "rwdi"], weight=1.0),
               # deeply tracked pool / stack: growth, shrink and node events, across moves
               dict(engine="compsim", profile="C09D", builds=["dbg", "rwdi"], weight=0.6),
               # allocator references inside containers: which allocator object a (re-seated, assigned, type-erased)
               # reference passes its requests to
               dict(engine="compsim", profile="C10", builds=["dbg"], weight=0.5)],
        quick_s=50, thorough_s=600, rule='each run = one plan drawn from a 63-bit seed (composition / helper, leaf limits and budgets, thresholds, request shapes, leaf or constructor failures attached to operations), executed against the real adapter templates over logging leaf allocators; distinct = distinct run hash (op outcomes, returned offsets, leaf ledger); non-trivial = at least one release through the composition and (a request served by a non-first leaf or at least 4 operations)',
        stubs=["logging leaf RawAllocators (with/without array members, composable or not, stateful or "
               "stateless, budgets, failure at the k-th call) over SimHeap", "recording Tracker",
               "instrumented element types"],
        technique="deterministic simulation: request histories through 40+ adapter compositions (depth <= 3) "
                  "over logging leaves with leaf failure injection; per-call forwarding oracle on the leaf log",
        text="Every wrapper/storage class and the deleters / smart pointer helpers are instantiated over "
             "logging leaves; each call through a composition must reach the leaves as exactly one served "
             "request of at least the requested size and alignment, each release must reach the same leaf "
             "once with the kind/count/size/alignment that request had; tracker events exactly once per "
             "successful operation; under injected leaf failures nothing a leaf served may be lost.",
        note="A member that does not compile cannot be driven: compositions are a fixed compile-time list; "
             "instantiating every forwarding member is part of the build of the check.",
        design="3/C09"),
    "C20": dict(
        engine="compsim", profile="C20", builds=["dbg", "rwdi"], level="fault_enumeration",
        parts=[dict(engine="compsim", profile="C20", builds=["dbg", "rwdi"], weight=2.0),
               dict(engine="compsim", profile="C20J", builds=["dbg", "rwdi"], weight=1.0)],
        quick_s=35, thorough_s=600, rule='each run = one plan drawn from a 63-bit seed (composition / helper, leaf limits and budgets, thresholds, request shapes, leaf or constructor failures attached to operations), executed against the real adapter templates over logging leaf allocators; distinct = distinct run hash (op outcomes, returned offsets, leaf ledger); non-trivial = at least one release through the composition and (a request served by a non-first leaf or at least 4 operations)',
        stubs=["instrumented element types throwing from the k-th construction", "logging leaf RawAllocators "
               "over SimHeap (real memory_pool and memory_stack are also used as allocators)"],
        exhaustive_subspaces="helper {allocate_unique<T>, allocate_unique<T[]>, allocate_shared<T>} x element "
                             "type (3) x allocator (5: leaf with/without array members, any_allocator, real "
                             "memory_pool, real memory_stack) x length 1..16 x failure index 0..length+1, plus "
                             "polymorphic deleter small/large x {0,1}: enumerated completely by the 'sweep' op "
                             "(every 64th seed)",
        technique="deterministic simulation with fault injection: constructor failure at every element index "
                  "(complete table) for every object-creating helper, construct/destruct ledger + allocator "
                  "ledger oracle",
        text="An instrumented element type throws from the k-th construction; for every helper, length and "
             "k the live-object ledger must return to its value before the call, the memory must be given "
             "back with matching parameters, the injected exception must arrive unchanged, and later requests "
             "must still be served; on success each element is constructed once and destroyed once with the "
             "owner. joint_ptr/joint_array forms are covered by the C11 engine part of this check.",
        note="Length 0 arrays are not requested (array count must be valid, i.e. non-zero).",
        design="3/C20"),
    "C10": dict(
        engine="compsim", profile="C10", builds=["dbg", "rwdi"], level="exploration",
        parts=[dict(engine="compsim", profile="C10", builds=["dbg", "rwdi"], weight=4.0),
               # shared_ptr / unique_ptr helpers and the deleter classes (the smart mode C09 and C20 use)
               dict(engine="compsim", profile="C09S", builds=["dbg", "rwdi"], weight=1.0)],
        quick_s=40, thorough_s=600, rule=PROPS_COMP_RULE_CONT,
        stubs=["two stateful logging leaf RawAllocators A and B (and a stateless one) that notice a release of "
               "memory they did not hand out or with other parameters", "std::allocator containers as reference "
               "model"],
        technique="deterministic simulation: seeded operation histories over 4 containers bound to two allocator "
                  "objects (insert/erase/clear/copy/move/swap/copy-with-allocator/splice/merge), allocation "
                  "failure injected at the k-th allocation of an operation; per-allocator ledger, reference "
                  "containers, equality oracle",
        text="11 container kinds + string x 5 element types (size 1..128, alignment 1..16) x typed / type-erased "
             "/ stateless std_allocator: every operation is mirrored on std::allocator containers and contents "
             "compared; a leaf that is handed memory it did not serve raises the alarm at that operation; "
             "operator== of the allocators must agree with 'same allocator object'; splice/merge are issued "
             "iff the library says equal; all memory back when the containers are gone; every single-node "
             "request of a node container must fit X_node_size<T>.",
        note="After an operation that failed with an injected allocation failure only the basic guarantee is "
             "assumed: the reference is re-synchronised from the container.",
        design="3/C10"),
    "C11": dict(
        engine="compsim", profile="C11", builds=["dbg", "rwdi"], level="exploration",
        quick_s=35, thorough_s=600, rule=PROPS_COMP_RULE,
        stubs=["logging leaf RawAllocator under joint_ptr (exact-size upstream blocks, ASan-poisoned "
               "surroundings)", "instrumented element types"],
        technique="deterministic simulation: seeded creation / clone / move / swap / reset histories of joint "
                  "objects with additional sizes around the exact fit, constructor failures injected; layout, "
                  "ledger and independence oracles",
        text="Joint types with three joint_arrays of mixed element sizes/alignments (all four constructor "
             "forms, copy- and move-with-joint) and with vector/string on joint_allocator are created with "
             "additional sizes from far too small through exact fit to generous; the leaf must see exactly one "
             "node request of sizeof(T)+additional at alignof(T), member storage must lie disjoint and aligned "
             "inside the bytes after the object, too-small sizes must throw out_of_fixed_memory without "
             "overrunning (ASan) or leaking, destruction must destroy every element once and release the block "
             "in one call with the original size and alignment, clones must be independent.",
        note="Exact need is computed by the harness from sizeof/alignof of the member element types (the leaf "
             "returns max_alignment aligned memory).",
        design="3/C11"),
    "C12": dict(
        engine="histsim", profile="C12", builds=["dbg", "rwdi", "rel"], level="exploration",
        parts=[dict(engine="histsim", profile="C12", builds=["dbg", "rwdi", "rel"], weight=5.0),
               # moves of adapters that hold a pointer into themselves (deeply tracked allocators)
               dict(engine="compsim", profile="C09D", builds=["dbg", "rwdi"], weight=0.6),
               # move assignment of adapter compositions (other knobs in the source)
               dict(engine="compsim", profile="C12W", builds=["dbg"], weight=0.5)],
        quick_s=60, thorough_s=600,
        technique="deterministic simulation: move / move-assign / swap inserted at drawn history positions, "
                  "C01+C05 oracles continued across the move, assertions on",
        text="Histories with move construction (into slots below/above/between the blocks), move "
             "assignment onto live, empty and moved-from targets, swap, and destruction of moved-from "
             "objects at drawn points; old pointers keep patterns, ledger shows no leak/double release, "
             "no assertion fires.",
        note="A violation is attributed to C12 when it happens after at least one move in the plan.",
        design="3/C12"),
    "C13": dict(
        engine="schedsim", profile="C13", builds=["dbg", "rwdi"], level="exploration",
        quick_s=40, thorough_s=600, chunk=60,
        rule="each run = one plan drawn from a 63-bit seed: 2-4 tasks (real threads) with their operation lists "
             "over one shared allocator_storage<Policy, SimMutex> (direct / reference / type-erased storage, "
             "stateless allocator, real memory_pool) and a scheduler seed; the scheduler releases one task at a "
             "time and picks the next at every scheduling point (mutex lock/unlock, entry and exit of every "
             "member of the wrapped probe allocator, every upstream call, thread start/end); distinct = distinct "
             "hash of the recorded schedule (sequence of picks); non-trivial = at least two preemptions (a "
             "runnable task was descheduled in favour of another)",
        stubs=["SimMutex (records owner, blocks tasks in the scheduler)", "probe allocator with occupancy "
               "counter and yield points inside every member", "SimHeap upstream (for the real pool variant)"],
        technique="deterministic simulation of thread schedules: real threads parked and released one at a time "
                  "by a seeded scheduler at intercepted synchronisation points; occupancy / lock-held oracle",
        text="2-4 threads share one thread_safe_allocator (all storage policies, Mutex = simulator mutex) and "
             "call every forwarding member and the lock() proxy; tasks are descheduled inside the wrapped "
             "allocator while others try to enter. Any entry while another task is inside, or without the mutex "
             "held, any unlock by a non-owner, deadlock or livelock is a violation; a stateless allocator must "
             "take no lock; a real memory_pool keeps the C01 shadow model under contention.",
        note="Serialising scheduler: no instruction-level preemption; atomicity of the stateless allocators' "
             "global counters under true parallelism is not decided here.",
        design="3/C13"),
    "C14": dict(
        engine="schedsim", profile="C14", builds=["rwdi", "dbg", "tm1"], level="exploration",
        parts=[dict(engine="schedsim", profile="C14", builds=["rwdi", "dbg", "tm1"], weight=5.0),
               # one thread, an explicit temporary_stack: scopes, growth, shrink, upstream failure (histsim)
               dict(engine="histsim", profile="C14H", builds=["dbg", "rwdi"], weight=1.0)],
        quick_s=50, thorough_s=600, chunk=40,
        rule="each run = one forked child process executing one plan drawn from a 63-bit seed: the real main "
             "thread plus 1-3 worker threads (started and joined at drawn points) run nested temporary_allocator "
             "scopes, allocations, shrink_to_fit, temporary_stack_initializer creation/destruction and "
             "get_temporary_stack(), optionally with the k-th malloc failing; a seeded scheduler decides who runs "
             "at every hook point of the lock-free stack list (guarded hook H1), at upstream calls and at thread "
             "start/exit (thread-local destructors run under scheduler control); the child then leaves through "
             "exit(), i.e. real thread-local and static destruction; distinct = distinct hash of schedule and "
             "returned addresses; non-trivial = at least one preemption",
        stubs=["wrapped malloc/free (SimHeap) with failure injection", "recording leak handler", "exit-time "
               "accounting object (init_priority 101, destroyed after every library static)"],
        technique="deterministic simulation of thread schedules with fault injection: seeded scheduler over real "
                  "threads at guarded hook points inside the lock-free temporary stack list, fork-per-run, real "
                  "process exit; exclusivity / scope-marker / reuse / exit-balance oracles",
        text="Per run a fresh process: threads start, use temporary allocators in nested scopes, create and "
             "destroy initializers and exit under seeded interleavings of every shared-memory step of the stack "
             "list. Oracles: no two live threads are ever handed the same stack; the stack marker after a "
             "temporary_allocator's destruction equals the one before its construction and outer allocations "
             "keep their contents; a thread is not given a brand-new stack while the stack of a finished user "
             "was free during the whole call; after exit() nothing obtained through malloc is still allocated "
             "and the leak handler stayed silent; no deadlock/livelock. Modes 2 (list, nifty counter) and 1 "
             "(explicit initializer).",
        note="Scheduling points are the hook sites (H1), upstream calls and thread start/end: interleavings "
             "inside a single atomic operation are not explored.",
        design="3/C14"),
    "C15": dict(
        engine="histsim", profile="C15", builds=["dbg", "rwdi", "rel"], level="exploration",
        parts=[dict(engine="histsim", profile="C15", builds=["dbg", "rwdi", "rel"], weight=3.0),
               dict(engine="histsim", profile="C15X", builds=["dbg", "rwdi", "rel", "lk", "pk"], san="plain", weight=1.2),
               dict(engine="schedsim", profile="C15T", builds=["dbg", "rwdi"], weight=0.6)],
        quick_s=40, thorough_s=600,
        technique="deterministic simulation: traits-level histories with moves and leftovers; leak-handler "
                  "oracle bracketed around each destruction",
        text="allocator_traits-level histories on pools, collections and stacks with moves and a drawn set "
             "left live; at each destruction the recording leak handler must be called exactly once with "
             "the model's net (or not at all when balanced / moved-from / checking off).",
        note="Exit-time reports of the stateless allocators are checked in forked children (profile C15X); the "
             "process-wide counter under concurrent use is checked by schedsim (profile C15T, hook H2).",
        design="3/C15"),
    "C16": dict(
        engine="histsim", profile="C16", builds=["dbg", "rwdi"], level="fault_enumeration",
        parts=[dict(engine="histsim", profile="C16", builds=["dbg", "rwdi"], san="plain", weight=1.0)],
        quick_s=40, thorough_s=600, chunk=40,
        rule="each run = a valid seeded operation history (prefix) on a pool or stack followed by the complete "
             "misuse table: {pointer outside every chunk: other allocator's memory / program stack / chunk header, "
             "pointer off the node boundary at any offset / at an offset that keeps the node's alignment} on small-node "
             "pools, double free of the node at the lowest / highest address / most recently freed / the neighbour below "
             "or above the most recently freed / middle of the free list on node, array and small pools (builds with "
             "double-free checking), unwind to a marker above the top in the same / a later block, out-of-order or "
             "repeated deallocate_block on static / virtual / fixed block allocators; every case runs in its own "
             "forked child whose way of ending (handler with unchanged state, abort, normal return, hang) is the "
             "observation; distinct = distinct run hash of prefix and outcomes; non-trivial = prefix with growth or "
             "at least 4 allocations, and a release",
        exhaustive_subspaces="misuse kind x position class table: complete for every sampled prefix",
        stubs=["SimHeap upstream", "invalid-pointer handler that compares the allocator's capacity readings with a "
               "snapshot taken right before the bad call and exits with a status"],
        technique="deterministic simulation with fault injection: the fault is client misuse injected after a valid "
                  "seeded history, the complete misuse table per sampled prefix, each case in a forked child of a "
                  "non-sanitizer build; outcome classification (handler / stopped / continued / hang). No false "
                  "reports is an invariant of every other histsim run",
        text="Plain (non-sanitizer) builds with pointer checking (and double-free checking in the Debug "
             "configuration): after a valid history one misuse is made; the child must end in the invalid-pointer "
             "handler with the allocator's observable state still unchanged, or be stopped by an assertion/abort; "
             "returning normally or hanging is a violation, SIGSEGV is counted as 'stopped (uncontrolled)'. The "
             "converse - valid releases never trigger a report - is checked by a recording handler in every run "
             "of every histsim check (class false_invalid_pointer_report).",
        note="Cases whose check is compiled out in a build are not run there (double free outside the Debug "
             "configuration).",
        design="3/C16"),
    "C17": dict(
        engine="histsim", profile="C17", builds=["dbg", "dbg16", "rwdi"], level="fault_enumeration",
        # (joint memory is the one user of an explicit fence size - none - inside a fence build: compsim's joint mode)
        parts=[dict(engine="histsim", profile="C17", builds=["dbg", "dbg16", "rwdi"], weight=3.0),
               dict(engine="compsim", profile="C11", builds=["dbg"], weight=0.5)],
        quick_s=50, thorough_s=600,
        technique="deterministic simulation with fault injection: the fault is a corrupting write into a fence "
                  "at a drawn instant of a history; complete side x offset x value tables for six node sizes; "
                  "fill patterns as invariants of all histories",
        text="For heap/malloc/new/virtual_memory allocators with fences 8 and 16 a byte is written into a "
             "fence of a live node at an arbitrary point of a history and the node released later: exactly one "
             "report per corrupted fence with the node, its size and the lowest corrupted address; the table "
             "side x offset x value(!=0xFD) is enumerated completely for node sizes 1,7,8,16,24,100 (sampled "
             "offsets for the page-sized fences of virtual memory); never a report without corruption (fence 0 "
             "build included). Fill: every byte handed out reads 0xCD, every byte released to a pool reads 0xDD "
             "except the link bytes.",
        note="Effective fence of the low-level allocators is max_alignment (one page for virtual memory) "
             "whenever DEBUG_FENCE != 0; the handler installed by the harness returns instead of aborting.",
        design="3/C17"),
    "C18": dict(
        engine="histsim", profile="C18", builds=["dbg", "rwdi", "rel"], level="exploration",
        quick_s=45, thorough_s=600,
        technique="deterministic simulation: counter-delta model over seeded histories, per-run "
                  "min_block_size(node,n) knob, over-limit requests",
        text="capacity_left / pool_capacity_left / next_capacity are predicted from the previous reading and "
             "the operation; requests above the advertised maxima must not succeed; pools built with "
             "min_block_size(node_size, n) on a non-growing source must serve n nodes.",
        note="min_block_size sweep is sampled per run here; the complete (node,n) sweep is the thorough "
             "tier's enumeration rider.",
        design="3/C18"),
}

NOT_APPLICABLE = {
    "C19": "pure functions of their arguments (rounding, alignment offset, ilog2, bucket index): no history, "
           "schedule, fault or environment for a simulator to control; input enumeration/SMT would be a "
           "different technique (DESIGN.md section 3, C19)",
}

HOOK_COMMITS = ["91245af verif: guarded scheduling points in the temporary stack list (FOONATHAN_MEMORY_VERIF)",
                "5cd4631 verif: atomic seam for the process-wide leak counters (FOONATHAN_MEMORY_VERIF)"]

ENGINE_TEXT = {
    "schedsim": "deterministic thread-schedule simulator: real OS threads parked and released one at a time by a "
                "seeded scheduler at intercepted synchronisation points (mutex, allocator entry/exit, upstream "
                "calls, library hook points, thread start/end incl. thread-local destruction); fork-per-run for "
                "the process-exit part",
    "compsim": "single-task deterministic simulator for adapter compositions, smart pointer helpers, joint "
               "allocations and STL containers over logging leaf allocators and instrumented element types",
    "histsim": "single-task deterministic simulator: seeded operation/fault plans executed against real library "
               "allocators over a simulated upstream (SimHeap) with a shadow model; plans are replayable and "
               "minimised by ddmin",
}
