"""Batch execution of simulator runs on worker processes, crash attribution, minimisation, replay gate."""
import json
import os
import re
import subprocess
import tempfile
import threading
import time

from . import build

TMP = os.path.join(build.BUILD, "tmp")


class Violation:
    def __init__(self, **kw):
        self.index = kw.get("index")
        self.seed = kw.get("seed")
        self.props = kw.get("props", [])
        self.cls = kw.get("cls", "")
        self.facts = kw.get("facts", "")
        self.kind = kw.get("kind", "oracle")  # oracle | crash
        self.build = kw.get("build", "")
        self.engine = kw.get("engine", "")
        self.profile = kw.get("profile", "")
        self.san = kw.get("san", "asan")
        self.plan = kw.get("plan")  # list of lines
        self.sut = kw.get("sut", "")
        self.stderr = kw.get("stderr", "")

    def signature(self):
        return "%s|%s" % (self.cls, self.sut)

    def to_json(self):
        return dict(index=self.index, seed=self.seed, props=self.props, cls=self.cls, facts=self.facts,
                    kind=self.kind, build=self.build, engine=self.engine, profile=self.profile, sut=self.sut)


def classify_crash(rc, out_tail, err_tail):
    """coarse, stable class for a worker death"""
    text = err_tail or ""
    m = re.search(r"Assertion failure in function (\S+) \(([^:)]+):(\d+)\)", text)
    if m:
        return "crash_assert_%s" % m.group(1), m.group(0)
    m = re.search(r"Unreachable code reached in function (\S+)", text)
    if m:
        return "crash_unreachable_%s" % m.group(1), m.group(0)
    m = re.search(r"ERROR: AddressSanitizer: (\S+)", text)
    if m:
        kind = m.group(1)
        fn = ""
        fm = re.search(r"#0 0x[0-9a-f]+ in (\S+)", text)
        if fm:
            fn = fm.group(1)[:60]
        return "crash_asan_%s" % kind, "AddressSanitizer: %s in %s" % (kind, fn)
    m = re.search(r"([^\s:]+):(\d+):\d+: runtime error: ([^\n]+)", text)
    if m:
        return "crash_ubsan", "%s:%s: runtime error: %s" % (os.path.basename(m.group(1)), m.group(2),
                                                            m.group(3)[:160])
    m = re.search(r"runtime error: ([^\n]+)", text)
    if m:
        return "crash_ubsan", m.group(0)[:200]
    m = re.search(r"X terminate=(\S+)", out_tail or "")
    if m:
        return "crash_terminate", "std::terminate: " + m.group(1)
    m = re.search(r"X signal=(\S+)", out_tail or "")
    if m:
        return "crash_" + m.group(1).lower(), m.group(0)
    if rc is None:
        return "hang", "run exceeded its time limit"
    return "crash_rc%s" % rc, "exit status %s" % rc


class Batch:
    """runs `count` seeds of (engine binary, profile) on `workers` processes"""

    def __init__(self, binp, engine, cfg, profile, base, start, count, workers, deadline, chunk=200,
                 samples=0, san="asan", per_run_timeout=60):
        self.binp, self.engine, self.cfg, self.profile = binp, engine, cfg, profile
        self.base, self.start, self.count = base, start, count
        self.workers, self.deadline, self.chunk = workers, deadline, chunk
        self.samples = samples
        self.san = san
        self.per_run_timeout = per_run_timeout
        self.lock = threading.Lock()
        self.next = start
        self.end = start + count
        self.runs = 0
        self.ops = 0
        self.skipped = 0
        self.nontrivial_hashes = set()
        self.hashes = set()
        self.violations = []
        self.stats = {}
        self.sample_plans = {}
        self.stop = False

    def _take(self):
        with self.lock:
            if self.stop or self.next >= self.end or time.time() > self.deadline:
                return None
            a = self.next
            b = min(self.end, a + self.chunk)
            self.next = b
            return a, b

    def _run_chunk(self, a, b):
        cur = a
        while cur < b and not self.stop and time.time() < self.deadline:
            want_samples = self.samples if (cur == self.start) else 0
            cmd = [self.binp, "run", "--profile", self.profile, "--base", str(self.base), "--from", str(cur),
                   "--count", str(b - cur), "--samples", str(want_samples)]
            p = subprocess.Popen(cmd, stdout=subprocess.PIPE, stderr=subprocess.PIPE, text=True,
                                 errors="replace")
            timer = threading.Timer(max(5.0, min(self.per_run_timeout * 10, self.deadline - time.time() + 30)),
                                    p.kill)
            timer.start()
            try:
                out, err = p.communicate()
            finally:
                timer.cancel()
            last_begin = None
            last_done = None
            last_sut = ""
            done = False
            tail = []
            for line in out.splitlines():
                if not line:
                    continue
                t = line[0]
                if t == "B":
                    _, i, seed = line.split()[:3]
                    last_begin = (int(i), int(seed))
                    last_sut = ""
                elif t == "U":
                    last_sut = line[2:].strip()
                elif t == "R":
                    f = line.split()
                    with self.lock:
                        self.runs += 1
                        self.ops += int(f[5])
                        if len(f) > 6 and f[6].startswith("skip="):
                            self.skipped += 1
                        else:
                            self.hashes.add(f[3])
                            if f[4] == "1":
                                self.nontrivial_hashes.add(f[3])
                    last_done = int(f[1])
                    last_begin = None
                elif t == "V":
                    head, _, facts = line.partition(" | ")
                    f = head.split()
                    v = Violation(index=int(f[1]), seed=int(f[2]), props=f[3].split(","), cls=f[4],
                                  facts=facts, kind="oracle", build=self.cfg, engine=self.engine,
                                  profile=self.profile, san=self.san, sut=last_sut)
                    with self.lock:
                        self.runs += 1
                        self.violations.append(v)
                    last_done = int(f[1])
                    last_begin = None
                elif t == "S":
                    f = line.split()
                    with self.lock:
                        self.stats[f[1]] = self.stats.get(f[1], 0) + int(f[2])
                elif t == "P":
                    f = line.split(" ", 2)
                    with self.lock:
                        self.sample_plans.setdefault(int(f[1]), []).append(f[2] if len(f) > 2 else "")
                elif line == "END":
                    done = True
                elif t == "X":
                    tail.append(line)
            if done:
                return
            # the worker died inside run last_begin
            if last_begin is None and last_done is not None and p.returncode == 0:
                # the worker retired after a run it cannot continue from (parked threads): fresh process
                cur = last_done + 1
                continue
            if last_begin is None:
                # died outside any run (startup?): harness problem
                with self.lock:
                    self.violations.append(Violation(index=cur, seed=0, props=["HARNESS"],
                                                     cls="worker_died_outside_run",
                                                     facts=(err or "")[-500:], kind="harness",
                                                     build=self.cfg, engine=self.engine,
                                                     profile=self.profile))
                return
            cls, what = classify_crash(p.returncode if p.returncode is not None and p.returncode >= 0
                                       else p.returncode, "\n".join(tail), err[-6000:] if err else "")
            if p.returncode is not None and p.returncode < 0 and cls.startswith("crash_rc"):
                cls, what = ("hang", "killed after time limit") if p.returncode == -9 else (cls, what)
            if cls == "hang" and time.time() >= self.deadline:
                # the worker was stopped because the batch was over, in the middle of a run: that run gets a process
                # and a time limit of its own; only if it does not end there either it is a hang
                try:
                    lines = gen_plan(self.binp, self.profile, last_begin[1])
                    r = exec_plan(self.binp, lines, timeout=180)
                except RuntimeError:
                    r = dict(kind="harness")
                if not (r.get("kind") == "crash" and r.get("cls") == "hang"):
                    return
            v = Violation(index=last_begin[0], seed=last_begin[1], props=["CRASH"], cls=cls, facts=what,
                          kind="crash", build=self.cfg, engine=self.engine, profile=self.profile,
                          stderr=(err or "")[-3000:], san=self.san, sut=last_sut)
            with self.lock:
                self.runs += 1
                self.violations.append(v)
            cur = last_begin[0] + 1

    def _worker(self):
        while True:
            t = self._take()
            if t is None:
                return
            self._run_chunk(*t)

    def run(self):
        ths = [threading.Thread(target=self._worker) for _ in range(self.workers)]
        for t in ths:
            t.start()
        for t in ths:
            t.join()
        return self


def gen_plan(binp, profile, seed):
    r = subprocess.run([binp, "gen", "--profile", profile, "--seed", str(seed)], capture_output=True, text=True)
    if r.returncode != 0:
        raise RuntimeError("gen failed: " + r.stderr[-500:])
    return [l for l in r.stdout.splitlines() if l.strip()]


def exec_plan(binp, lines, timeout=180):
    """returns dict(kind=ok|oracle|crash|skip|harness, cls, props, facts, hash)"""
    os.makedirs(TMP, exist_ok=True)
    fd, path = tempfile.mkstemp(prefix="plan", suffix=".txt", dir=TMP)
    try:
        with os.fdopen(fd, "w") as f:
            f.write("\n".join(lines) + "\n")
        try:
            r = subprocess.run([binp, "exec", "--plan", path], capture_output=True, text=True,
                               errors="replace", timeout=timeout)
        except subprocess.TimeoutExpired:
            return dict(kind="crash", cls="hang", props=["CRASH"], facts="time limit", hash="")
        tail = []
        for line in r.stdout.splitlines():
            if line.startswith("V "):
                head, _, facts = line.partition(" | ")
                f = head.split()
                return dict(kind="oracle", cls=f[4], props=f[3].split(","), facts=facts, hash="")
            if line.startswith("R "):
                f = line.split()
                if len(f) > 6 and f[6].startswith("skip="):
                    return dict(kind="skip", cls=f[6], props=[], facts="", hash=f[3])
                return dict(kind="ok", cls="", props=[], facts="", hash=f[3])
            if line.startswith("X"):
                tail.append(line)
        if r.returncode == 2:
            return dict(kind="harness", cls="harness", props=[], facts=r.stderr[-300:], hash="")
        cls, what = classify_crash(r.returncode, "\n".join(tail), r.stderr[-6000:])
        return dict(kind="crash", cls=cls, props=["CRASH"], facts=what, hash="", stderr=r.stderr[-3000:])
    finally:
        try:
            os.remove(path)
        except OSError:
            pass


def same_failure(res, v):
    if res["kind"] != v.kind:
        return False
    if v.kind == "crash":
        # same coarse crash family (assert site / sanitizer kind)
        return res["cls"] == v.cls
    return res["cls"] == v.cls


def _split_plan(lines):
    """-> (head lines, [(task, op line)]); 'task n' lines become an attribute of the ops that follow"""
    head, ops, task = [], [], 0
    for l in lines:
        if l.startswith("op "):
            ops.append((task, l))
        elif l.startswith("task "):
            task = int(l.split()[1])
        else:
            head.append(l)
    return head, ops


def _join_plan(head, ops):
    out, task = list(head), 0
    sched = [l for l in out if l.startswith("sched")]
    out = [l for l in out if not l.startswith("sched")]
    for t, l in ops:
        if t != task:
            out.append("task %d" % t)
            task = t
        out.append(l)
    return out + sched


def minimise(binp, lines, v, budget=300, time_limit=60):
    """ddmin over ops (cfg lines are kept, task attribution of every op is kept), then drop fault attachments.
    Keeps the same violation class."""
    t0 = time.time()
    head, ops = _split_plan(lines)
    attempts = [0]

    def fails(cand):
        if attempts[0] >= budget or time.time() - t0 > time_limit:
            return False
        attempts[0] += 1
        return same_failure(exec_plan(binp, _join_plan(head, cand)), v)

    # cut the tail after the failing step first (cheap)
    m = re.search(r"step=(-?\d+)", v.facts or "")
    if m and v.kind == "oracle" and len(set(t for t, _ in ops)) <= 1:
        st = int(m.group(1))
        if 0 <= st < len(ops) - 1 and fails(ops[:st + 1]):
            ops = ops[:st + 1]
    n = 2
    while len(ops) >= 2 and attempts[0] < budget and time.time() - t0 < time_limit:
        chunk = max(1, len(ops) // n)
        reduced = False
        for i in range(0, len(ops), chunk):
            cand = ops[:i] + ops[i + chunk:]
            if cand and fails(cand):
                ops = cand
                n = max(n - 1, 2)
                reduced = True
                break
        if not reduced:
            if chunk == 1:
                break
            n = min(len(ops), n * 2)
    # try without each op once more (1-minimal pass), then without fault marks
    i = 0
    while i < len(ops) and attempts[0] < budget:
        cand = ops[:i] + ops[i + 1:]
        if cand and fails(cand):
            ops = cand
        else:
            i += 1
    for i, (t, l) in enumerate(list(ops)):
        if " !" in l:
            cand = list(ops)
            cand[i] = (t, re.sub(r" !\d+", "", l))
            if fails(cand):
                ops = cand
    return _join_plan(head, ops), attempts[0]


def sut_of(lines):
    for l in lines:
        if l.startswith("cfg sut="):
            return l[len("cfg sut="):].strip()
        if l.startswith("cfg comp="):
            return l[len("cfg comp="):].strip()
        if l.startswith("cfg cont="):
            return l[len("cfg cont="):].strip()
    return ""
